#!/usr/bin/env python3
"""Derives the std overlay (clock seam in time.Now, map-iteration seam in runtime.mapiterinit) from the local GOROOT.
Writes overlay/gen/{time_patched.go.txt,map_patched.go.txt,overlay.json}. /repo and GOROOT are not modified."""
import json, os, subprocess, sys
here = os.path.dirname(os.path.abspath(__file__))
goroot = subprocess.run(["go", "env", "GOROOT"], capture_output=True, text=True).stdout.strip()
out = os.path.join(here, "gen")
os.makedirs(out, exist_ok=True)

def patch(path, edits, tail):
    s = open(path).read()
    for old, new in edits:
        if s.count(old) != 1:
            sys.exit(f"overlay: anchor not unique in {path}: {old!r}")
        s = s.replace(old, new)
    return s + tail

t = patch(os.path.join(goroot, "src/time/time.go"),
          [("\tsec, nsec, mono := now()\n\tmono -= startNano\n", "\tsec, nsec, mono := now()\n\tsec += VerifWallOffset\n\tmono -= startNano\n")],
          "\n// VerifWallOffset is added (in seconds) to the wall clock reading of Now.\nvar VerifWallOffset int64\n\nfunc verifSetMapR(v uint64)\n\n// VerifSetMapIter fixes (v>0: word v-1) or frees (v==0) the runtime's map iteration start.\nfunc VerifSetMapIter(v uint64) { verifSetMapR(v) }\n")
m = patch(os.path.join(goroot, "src/runtime/map.go"),
          [("\tr := uintptr(rand())\n\tit.startBucket = r & bucketMask(h.B)\n", "\tr := uintptr(rand())\n\tif verifMapR != 0 {\n\t\tr = uintptr(verifMapR - 1)\n\t}\n\tit.startBucket = r & bucketMask(h.B)\n")],
          "\n// verifMapR, when non-zero, fixes the random word used to pick the start of every map iteration (value-1).\nvar verifMapR uint64\n\n//go:linkname verifSetMapR time.verifSetMapR\nfunc verifSetMapR(v uint64) { verifMapR = v }\n")
tp, mp = os.path.join(out, "time_patched.go.txt"), os.path.join(out, "map_patched.go.txt")
open(tp, "w").write(t); open(mp, "w").write(m)
json.dump({"Replace": {os.path.join(goroot, "src/time/time.go"): tp, os.path.join(goroot, "src/runtime/map.go"): mp}}, open(os.path.join(out, "overlay.json"), "w"))
print("overlay written to", out)
