#!/usr/bin/env python3
"""bin/gen_checks_table.py — regenerates the table of section 9.2 of DESIGN.md (between the CHECKS-TABLE markers) from
evidence/*.json (quick tier runs on the unchanged tree)."""
import json, os, sys
root = os.path.dirname(os.path.dirname(os.path.abspath(__file__)))
rows = []
def k(n):
    return "%.1f M" % (n / 1e6) if n >= 1e6 else ("%d k" % round(n / 1e3) if n >= 10000 else str(n))
for i in range(1, 21):
    pid = "C%02d" % i
    p = os.path.join(root, "evidence", pid + ".json")
    if not os.path.exists(p):
        continue
    j = json.load(open(p)); c = j["coverage"]
    ps = c.get("per_scenario") or {}
    scen = "; ".join("%s d%s" % (n.replace(pid + "-", ""), v.get("depth_completed")) for n, v in ps.items()) if ps else ", ".join(c.get("scenarios") or [])
    extra = []
    for key in ("replica_runs", "deviations", "inputs_enumerated", "extra"):
        if key in c and not isinstance(c[key], (dict, list)):
            extra.append("%s=%s" % (key, c[key]))
    conf = c.get("conformance") or {}
    rows.append("| %s | %s | %s | %s / %s / %s | %s | %.0f s |" % (pid, j.get("tier"), scen[:420] + (" …" if len(scen) > 420 else ""),
        k(c.get("states", 0)), k(c.get("transitions", 0)), k(c.get("distinct_nontrivial", 0)),
        ("%s traces, %s steps, %s ABCI blocks" % (conf.get("traces"), conf.get("steps_compared"), k(conf.get("abci_blocks_executed", 0)))) if conf else "—",
        j.get("wall_s", 0)))
tbl = "| check | tier | scenarios with completed depth | states / transitions / non-trivial states | conformance replay | wall (16 procs) |\n|---|---|---|---|---|---|\n" + "\n".join(rows) + "\n"
dp = os.path.join(root, "DESIGN.md")
s = open(dp).read()
b, e = "<!-- CHECKS-TABLE-BEGIN -->\n", "<!-- CHECKS-TABLE-END -->\n"
if b not in s:
    sys.exit("markers missing")
s = s[: s.index(b) + len(b)] + tbl + s[s.index(e):]
open(dp, "w").write(s)
print("rows", len(rows))
