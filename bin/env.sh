# sourced by every command: offline Go environment + harness module generation
export GOFLAGS=-mod=mod GOPROXY=off GOSUMDB=off GOTOOLCHAIN=local
export VERIF_ROOT="${VERIF_ROOT:-$(cd "$(dirname "${BASH_SOURCE[0]}")/.." && pwd)}"
export REPO="${REPO:-/repo}"
gen_gomod() {
  # harness go.mod = repository go.mod with the module renamed + replace sao => $REPO
  local d="$VERIF_ROOT/mc"
  { sed -e '1s#.*#module saomc#' "$REPO/go.mod"; echo; echo 'require github.com/SaoNetwork/sao v0.0.0'; echo "replace github.com/SaoNetwork/sao => $REPO"; } > "$d/go.mod.new"
  if ! cmp -s "$d/go.mod.new" "$d/go.mod"; then mv "$d/go.mod.new" "$d/go.mod"; else rm -f "$d/go.mod.new"; fi
  cmp -s "$REPO/go.sum" "$d/go.sum" || cp "$REPO/go.sum" "$d/go.sum"
}
