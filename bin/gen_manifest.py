#!/usr/bin/env python3
"""Regenerates /verif/MANIFEST.json from the table below (run after adding a check)."""
import json, os, subprocess

ROOT = os.path.dirname(os.path.dirname(os.path.abspath(__file__)))

LIFE_NOTE = ("Trusted: Cosmos SDK modules and Tendermint; the flat-snapshot seam (handlers through MsgServiceRouter on a branched store, "
             "custom begin/end-blockers called directly) is bound to the real ABCI pipeline by the conformance replay; bounds are the "
             "alphabet, parameter menus, roots and depth reported in the evidence file.")

X_TECH = "explicit-state model checking of the implementation (iterative-deepening DFS over flat store snapshots; step and state oracles)"

def life(text, ref):
    return dict(cat="model_checking", engine="X", text=text, tech=X_TECH, ref=ref)

CHECKS = {
    "C01": dict(cat="exploration", engine="R", note="Trusted: Tendermint (replaced by a driver feeding identical ABCI streams), the Go toolchain's -overlay mechanism for the clock and map-iteration seams; maps with more than 8 entries get a subset of the runtime's iteration freedom; concurrency between consensus and non-consensus calls is not explored (calls are inserted between consensus calls).",
                text="Two real application instances are fed the same ABCI block stream; replica B differs by exactly one enumerated environment deviation (wall-clock offset, map-iteration word, Simulate/CheckTx inserted at every stream position, the whole gRPC query menu of the six custom modules at every stream position, restart from the database at every stream position; seven scripts incl. a did:sid owner with key rotation, a governance parameter change and a super-node round with a store failing after selection). Every consensus response and app hash must be byte-identical. Exhaustive over the enumerated single deviations of three scripts that cover every custom message type, the staking hooks and tie-breaking selections.",
                tech="deviation-bounded exhaustive exploration of environment choices (clock, map order, interleaved non-consensus calls) on the real ABCI boundary, differential oracle between replicas", ref="5/C01, 3.3"),
    "C02": dict(cat="model_checking", engine="X+E", text="Every block advance of the lifecycle, capacity, fault-sequence and reward-minting explorations runs the real end-blockers and begin-blocker without recovery: a panic (chain halt) or a transition exceeding the CPU watchdog is a violation; transaction panics must surface as rejected transactions (compared with real DeliverTx in the conformance leg); the selection functions are enumerated exhaustively over small input domains under a CPU guard.", tech="explicit-state model checking of the implementation with halt/non-termination oracle + exhaustive input enumeration of the selection functions under a CPU-time watchdog", ref="5/C02"),
    "C03": dict(cat="fault_enumeration", engine="R", note="Trusted: Tendermint driver as in C01; a restart is a new app.New over the same database inside the harness process, so it resets everything an application instance holds but not Go package-level variables (none remain in x/ and app/ after the D2 repair; their residue is covered by the Simulate insertions, which stay in-process like a real node).",
                text="For every script, a restart from the database after every commit, a crash after every transaction index of every block (block re-executed from the last commit), and a Simulate of every script transaction at every stream position; all later consensus responses and app hashes must equal those of the uninterrupted replica.",
                tech="exhaustive crash/restart-point and simulated-transaction enumeration on the real ABCI boundary, differential oracle against the uninterrupted run", ref="5/C03, 3.3"),
    "C04": life("Exhaustive search of the real handlers/end-blockers over the lifecycle alphabet. Every transition's bank flows are compared with the quotes of the orders it created, the allowed recipients, and the change of the recomputed market/order obligations (dust tolerance per settlement); every state compares claimed+accrued income with an independent bytes x blocks integral.", "5/C04, A.1"),
    "C05": life("Exhaustive search over the lifecycle alphabet plus fault-sequence scenarios (silent providers, re-assignment, give-up, cancel, updates on an existing model). At the step that ends a never-stored order: refund == charge, shards gone, pledges untouched, model restored or removed with its alias, no stale expiry entry.", "5/C05"),
    "C06": life("Exhaustive search over the lifecycle alphabet; in every reachable state each escrow balance is compared with the obligations recomputed from the records (A.1/A.2); module-paid operations failing for lack of funds are reported.", "5/C06, A.1, A.2"),
    "C07": life("Exhaustive search over the lifecycle alphabet; for every transition and provider, coins moved between provider and node escrow must equal the change of recorded collateral net of debt plus capacity pledge; used capacity range in every state.", "5/C07, A.2"),
    "C08": life("Exhaustive search with the node begin-blocker executed at every height over {add/remove capacity (round and non-round sizes), claim, store+complete, terminate, next block} by two providers, above and below the baseline: per block supply delta == coinbase events == reward counter delta <= schedule bound; per state claimed+claimable per provider against an independent capacity x blocks reference and sum <= minted; per claim amount (whole coins less debt) and recipient.", "5/C08, A.2"),
    "C09": life("Exhaustive search of a small lifecycle in which every state offers every unauthorised request (request type x signer role x relayer x crafted commit id / owner-field mismatch / replayed signature / sid kid variants); an accepted unauthorised request must leave model, alias, orders, shards and expiry entry byte-identical; authorised twins must succeed (non-vacuity).", "5/C09, A.5"),
    "C10": life("Exhaustive search of a small lifecycle with an adversary node whose declared TxAddresses range over subsets of {order creator, provider, itself}; every message type with a creator/provider pair is sent by the adversary claiming each relevant provider, plus third-party / sponsor-misuse store submissions; every accepted adversarial message must leave all other parties' records and balances byte-identical.", "5/C10, A.5"),
    "C11": life("Exhaustive search over the lifecycle alphabet plus fault-sequence scenarios with a ghost paid-until height per completed shard: not released early, released at the end-block of its term, model alive while a paid shard remains and gone with the last one.", "5/C11, A.3"),
    "C12": life("Exhaustive enumeration of provider silence patterns per timeout interval (all complete/silent choices, optional late joiner, update orders, migrations) up to the give-up bound, plus the lifecycle alphabet (incl. orders picked up later by MsgReady): no unresolved order without a timeout entry, resolution within the bound counted from the hand-over, exact replica count / amount / refund at a partial give-up, no change to a fully stored order by the timeout mechanism.", "5/C12, A.4"),
    "C13": life("Exhaustive explicit-state search of the real handlers and end-blockers over the lifecycle alphabet; the four referential-integrity relations are evaluated in every reachable state and a violation is attributed to the step that first broke it. Bounded (depth, menus) but complete within the bound.", "5/C13"),
    "C14": life("Exhaustive explicit-state search of the real handlers and end-blockers over the lifecycle alphabet; per-provider counters and pool totals are recomputed from the shard and pledge records in every reachable state.", "5/C14"),
    "C15": dict(cat="exploration", engine="E+X", text="Exhaustive enumeration of RandomIndex and RandomSP (incl. GetNextSuperNodes, SelectNodes) inputs over small attribute domains (all populations up to 4/5 nodes over 11 classes, all ignore lists up to size 2, counts, cursors, 10 seeds) with the placement oracle on every result, plus the same oracle on every assignment made during the lifecycle and fault-sequence explorations of the real handlers.", tech="exhaustive input enumeration (engine E) + explicit-state exploration of the implementation (engine X)", ref="5/C15"),
    "C17": life("Exhaustive search over the did alphabet (bindings with valid / stale / foreign-key / replayed / malformed proofs for cosmos and eip155 accounts, every remove/keep partition on key rotation by bound and unbound creators, payment-address updates for sid and key DIDs): registry agreement in every state; binding, unbinding and payment-address step clauses on every transition.", "5/C17"),
    "C18": dict(cat="model_checking", engine="X+R", text="In every state reached by the lifecycle, fault-report, staking/super-node and timeout explorations the six modules' real ExportGenesis -> JSON -> Validate() -> real InitGenesis into empty custom stores is executed and the raw custom stores are compared (absent counters / cursor normalised to their defaults, and that normalisation is itself validated by applying every enabled operation to both states); plus the full pipeline ExportAppStateAndValidators -> ValidateGenesis -> InitChain on a fresh application -> two blocks after every block of the engine-R scripts.", tech="explicit-state model checking of the implementation with a round-trip (export/import) differential oracle in every state + full ABCI re-genesis of real instances", ref="5/C18"),
    "C19": life("Exhaustive search from two completed orders (plus a migration hand-over): every reporter kind x accused x fault content variant, every recoverer kind, block advance across the penalty tick and expiry; each recorded fault is validated against the pre-state and each report/recover step must leave balances, orders, shards, nodes and other providers' pledges byte-identical.", "5/C19, A.5"),
    "C20": life("Exhaustive search over delegate / undelegate / redelegate (two nodes and an outsider, two validators, amounts below / at / above the share threshold, everything, more than the balance), capacity changes across the threshold, status / validator resets and the full end-blocker of the module manager, from a fresh root and from a root with a super node: in every state a node with the super role satisfies the defining predicate recomputed through the staking keeper.", "5/C20"),
    "C16": life("Exhaustive search over the lifecycle alphabet with updates and force-pushes plus fault-sequence scenarios: ids strictly increasing, at most one order in flight per model, updates accepted only on the latest committed base, history appended / last entry replaced at completion.", "5/C16"),
}

NOT_YET = {}

def main():
    props = [json.loads(l)["id"] for l in open(os.path.join(ROOT, "properties.jsonl"))]
    checks = []
    for pid in props:
        if pid not in CHECKS:
            continue
        c = CHECKS[pid]
        checks.append({
            "property_id": pid,
            "quick_cmd": f"bin/check {pid} quick",
            "thorough_cmd": f"bin/check {pid} thorough",
            "evidence_file": f"evidence/{pid}.json",
            "replay_cmd_template": "bin/saomc replay {path}",
            "engine": c["engine"],
            "level_claimed": {"category": c["cat"], "text": c["text"], "design_ref": c["ref"]},
            "level_note": c.get("note", LIFE_NOTE),
            "technique": c["tech"],
        })
    na = [{"property_id": p, "reason": NOT_YET.get(p, "check not built yet in this round (work in progress; see DESIGN.md section 5 for the plan)")} for p in props if p not in CHECKS]
    hooks_commits = []
    try:
        out = subprocess.run(["git", "-C", "/repo", "log", "--format=%H %s"], capture_output=True, text=True).stdout
        hooks_commits = [l.split()[0] for l in out.splitlines() if " verif-hook:" in l]
    except Exception:
        pass
    m = {
        "version": 1,
        "setup_cmd": "bin/setup",
        "hooks": {
            "guard": "verif",
            "enable": "go build -tags verif (bin/check does this); the tag currently guards no file in /repo: every seam the harness needs is already exported, and the clock / map-iteration seams are std-library overlays (overlay/gen.py) that do not touch /repo",
            "baseline_off_cmd": "cd /repo && go test -mod=mod -json -vet=off -count=1 -timeout 25m ./...",
            "source_commits": hooks_commits,
            "add_only": True,
        },
        "engines": [
            {"name": "X", "path": "mc/engine", "serves_properties": sorted(p for p, c in CHECKS.items() if "X" in c["engine"]),
             "kind_free_text": "explicit-state explorer over flat snapshots of the real application stores; transitions are the repository's own message handlers and begin/end-blockers; conformance leg replays explorer traces through real ABCI"},
            {"name": "R", "path": "mc/replica", "serves_properties": sorted(p for p, c in CHECKS.items() if "R" in c["engine"]),
             "kind_free_text": "replica / crash differential on the ABCI boundary of real application instances, binary built with a std overlay owning the wall clock and the runtime's map iteration start"},
            {"name": "E", "path": "mc/checks/selectE.go", "serves_properties": sorted(p for p, c in CHECKS.items() if "E" in c["engine"]),
             "kind_free_text": "exhaustive enumeration of selection-function inputs on real keeper stores under a CPU-time guard"},
        ],
        "checks": checks,
        "not_applicable": na,
        "notes": "All checks rebuild mc/ against /repo's working tree (bin/check). known_findings.json lists recorded defects; traces/ holds their witnesses.",
    }
    json.dump(m, open(os.path.join(ROOT, "MANIFEST.json"), "w"), indent=1)
    print("MANIFEST.json:", len(checks), "checks,", len(na), "not claimed")

if __name__ == "__main__":
    main()
