#!/usr/bin/env python3
"""Regenerates /verif/MANIFEST.json from the table below (run after adding a check)."""
import json, os, subprocess

ROOT = os.path.dirname(os.path.dirname(os.path.abspath(__file__)))

LIFE_NOTE = ("Trusted: Cosmos SDK modules and Tendermint; the flat-snapshot seam (handlers through MsgServiceRouter on a branched store, "
             "custom begin/end-blockers called directly) is bound to the real ABCI pipeline by the conformance replay; bounds are the "
             "alphabet, parameter menus, roots and depth reported in the evidence file.")

X_TECH = "explicit-state model checking of the implementation (iterative-deepening DFS over flat store snapshots; step and state oracles)"

def life(text, ref):
    return dict(cat="model_checking", engine="X", text=text, tech=X_TECH, ref=ref)

CHECKS = {
    "C02": dict(cat="model_checking", engine="X+E", text="Every block advance of the lifecycle, capacity, fault-sequence and reward-minting explorations runs the real end-blockers and begin-blocker without recovery: a panic (chain halt) or a transition exceeding the CPU watchdog is a violation; transaction panics must surface as rejected transactions (compared with real DeliverTx in the conformance leg); the selection functions are enumerated exhaustively over small input domains under a CPU guard.", tech="explicit-state model checking of the implementation with halt/non-termination oracle + exhaustive input enumeration of the selection functions under a CPU-time watchdog", ref="5/C02"),
    "C04": life("Exhaustive search of the real handlers/end-blockers over the lifecycle alphabet. Every transition's bank flows are compared with the quotes of the orders it created, the allowed recipients, and the change of the recomputed market/order obligations (dust tolerance per settlement); every state compares claimed+accrued income with an independent bytes x blocks integral.", "5/C04, A.1"),
    "C05": life("Exhaustive search over the lifecycle alphabet plus fault-sequence scenarios (silent providers, re-assignment, give-up, cancel, updates on an existing model). At the step that ends a never-stored order: refund == charge, shards gone, pledges untouched, model restored or removed with its alias, no stale expiry entry.", "5/C05"),
    "C06": life("Exhaustive search over the lifecycle alphabet; in every reachable state each escrow balance is compared with the obligations recomputed from the records (A.1/A.2); module-paid operations failing for lack of funds are reported.", "5/C06, A.1, A.2"),
    "C07": life("Exhaustive search over the lifecycle alphabet; for every transition and provider, coins moved between provider and node escrow must equal the change of recorded collateral net of debt plus capacity pledge; used capacity range in every state.", "5/C07, A.2"),
    "C11": life("Exhaustive search over the lifecycle alphabet plus fault-sequence scenarios with a ghost paid-until height per completed shard: not released early, released at the end-block of its term, model alive while a paid shard remains and gone with the last one.", "5/C11, A.3"),
    "C12": life("Exhaustive enumeration of provider silence patterns per timeout interval (all complete/silent choices, optional late joiner, update orders, migrations) up to the give-up bound, plus the lifecycle alphabet: no unresolved order without a timeout entry, resolution within the bound, no change to a fully stored order by the timeout mechanism.", "5/C12, A.4"),
    "C13": life("Exhaustive explicit-state search of the real handlers and end-blockers over the lifecycle alphabet; the four referential-integrity relations are evaluated in every reachable state and a violation is attributed to the step that first broke it. Bounded (depth, menus) but complete within the bound.", "5/C13"),
    "C14": life("Exhaustive explicit-state search of the real handlers and end-blockers over the lifecycle alphabet; per-provider counters and pool totals are recomputed from the shard and pledge records in every reachable state.", "5/C14"),
    "C15": dict(cat="exploration", engine="E+X", text="Exhaustive enumeration of RandomIndex and RandomSP (incl. GetNextSuperNodes, SelectNodes) inputs over small attribute domains (all populations up to 4/5 nodes over 11 classes, all ignore lists up to size 2, counts, cursors, 10 seeds) with the placement oracle on every result, plus the same oracle on every assignment made during the lifecycle and fault-sequence explorations of the real handlers.", tech="exhaustive input enumeration (engine E) + explicit-state exploration of the implementation (engine X)", ref="5/C15"),
    "C16": life("Exhaustive search over the lifecycle alphabet with updates and force-pushes plus fault-sequence scenarios: ids strictly increasing, at most one order in flight per model, updates accepted only on the latest committed base, history appended / last entry replaced at completion.", "5/C16"),
}

NOT_YET = {}

def main():
    props = [json.loads(l)["id"] for l in open(os.path.join(ROOT, "properties.jsonl"))]
    checks = []
    for pid in props:
        if pid not in CHECKS:
            continue
        c = CHECKS[pid]
        checks.append({
            "property_id": pid,
            "quick_cmd": f"bin/check {pid} quick",
            "thorough_cmd": f"bin/check {pid} thorough",
            "evidence_file": f"evidence/{pid}.json",
            "replay_cmd_template": "bin/saomc replay {path}",
            "engine": c["engine"],
            "level_claimed": {"category": c["cat"], "text": c["text"], "design_ref": c["ref"]},
            "level_note": c.get("note", LIFE_NOTE),
            "technique": c["tech"],
        })
    na = [{"property_id": p, "reason": NOT_YET.get(p, "check not built yet in this round (work in progress; see DESIGN.md section 5 for the plan)")} for p in props if p not in CHECKS]
    hooks_commits = []
    try:
        out = subprocess.run(["git", "-C", "/repo", "log", "--format=%H %s"], capture_output=True, text=True).stdout
        hooks_commits = [l.split()[0] for l in out.splitlines() if " verif-hook:" in l]
    except Exception:
        pass
    m = {
        "version": 1,
        "setup_cmd": "bin/setup",
        "hooks": {
            "guard": "verif",
            "enable": "go build -tags verif (bin/check does this); the tag currently guards no file in /repo: every seam the harness needs is already exported",
            "baseline_off_cmd": "cd /repo && go test -mod=mod -json -vet=off -count=1 -timeout 25m ./...",
            "source_commits": hooks_commits,
            "add_only": True,
        },
        "engines": [
            {"name": "X", "path": "mc/engine", "serves_properties": sorted(p for p, c in CHECKS.items() if "X" in c["engine"]),
             "kind_free_text": "explicit-state explorer over flat snapshots of the real application stores; transitions are the repository's own message handlers and begin/end-blockers; conformance leg replays explorer traces through real ABCI"},
            {"name": "E", "path": "mc/checks/selectE.go", "serves_properties": sorted(p for p, c in CHECKS.items() if "E" in c["engine"]),
             "kind_free_text": "exhaustive enumeration of selection-function inputs on real keeper stores under a CPU-time guard"},
        ],
        "checks": checks,
        "not_applicable": na,
        "notes": "All checks rebuild mc/ against /repo's working tree (bin/check). known_findings.json lists recorded defects; traces/ holds their witnesses.",
    }
    json.dump(m, open(os.path.join(ROOT, "MANIFEST.json"), "w"), indent=1)
    print("MANIFEST.json:", len(checks), "checks,", len(na), "not claimed")

if __name__ == "__main__":
    main()
