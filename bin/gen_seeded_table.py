#!/usr/bin/env python3
"""bin/gen_seeded_table.py — regenerates the table of section 10 of DESIGN.md (between the SEEDED-TABLE markers) from
seeded/<id>/meta.json and seeded/SWEEP.txt."""
import json, os, re, sys
root = os.path.dirname(os.path.dirname(os.path.abspath(__file__)))
sweep = {}
head = ""
p = os.path.join(root, "seeded", "SWEEP.txt")
if os.path.exists(p):
    for l in open(p):
        l = l.strip()
        if l.startswith("repo HEAD"):
            head = l
            continue
        if l:
            k, _, v = l.partition(" ")
            sweep[k] = v
def clip(s, n):
    s = re.sub(r"\s+", " ", (s or "").replace("|", "\\|")).strip()
    return s if len(s) <= n else s[: n - 3] + "..."
def key(d):
    m = re.match(r"C(\d+)(.*)", d)
    return (m.group(2) not in ("", "b"), m.group(2), int(m.group(1)))
rows = []
for d in sorted([d for d in os.listdir(os.path.join(root, "seeded")) if d.startswith("C") and os.path.isdir(os.path.join(root, "seeded", d))], key=key):
    m = json.load(open(os.path.join(root, "seeded", d, "meta.json")))
    files = ", ".join(os.path.basename(f) for f in (m.get("files_changed") or []))
    rows.append("| %s | %s | %s | %s | %s |" % (d, clip(files, 60), clip(m.get("summary"), 230), clip(m.get("needs_to_manifest"), 170), sweep.get(d, "(not swept)")))
tbl = "Sweep: %s; %d changes, %d caught, %d missed.\n\n| id | file(s) | change | needs, to manifest | verdict of the property's quick check |\n|---|---|---|---|---|\n" % (
    head or "not run", len(rows), sum(1 for r in sweep.values() if r.startswith("CAUGHT")), sum(1 for r in sweep.values() if r.startswith("MISSED"))) + "\n".join(rows) + "\n"
dp = os.path.join(root, "DESIGN.md")
s = open(dp).read()
b, e = "<!-- SEEDED-TABLE-BEGIN -->\n", "<!-- SEEDED-TABLE-END -->\n"
if b not in s:
    sys.exit("markers missing in DESIGN.md")
s = s[: s.index(b) + len(b)] + tbl + s[s.index(e):]
open(dp, "w").write(s)
print("table: %d rows" % len(rows))
