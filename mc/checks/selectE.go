package checks

import (
	"fmt"
	"math/big"
	"sort"
	"strings"

	"saomc/engine"
	"saomc/world"

	nodekeeper "github.com/SaoNetwork/sao/x/node/keeper"
	nodetypes "github.com/SaoNetwork/sao/x/node/types"
	sdk "github.com/cosmos/cosmos-sdk/types"
)

// Engine E: exhaustive enumeration of the inputs of the selection functions over small attribute domains.

const selSize = int64(1000)

type nodeClass struct {
	Name     string
	Status   uint32
	Rep      float32
	Role     uint32
	Free     int64
	Alive    int64
	Eligible bool
	NoPledge bool
}

const stElig = nodetypes.NODE_STATUS_ONLINE | nodetypes.NODE_STATUS_SERVE_STORAGE | nodetypes.NODE_STATUS_ACCEPT_ORDER

var nodeClasses = []nodeClass{
	{Name: "E1", Status: FullStatus, Rep: 10000, Role: nodetypes.NODE_NORMAL, Free: selSize, Alive: 1, Eligible: true},
	{Name: "E2", Status: stElig, Rep: 10000, Role: nodetypes.NODE_NORMAL, Free: selSize + 5, Alive: 2, Eligible: true},
	{Name: "E3", Status: FullStatus, Rep: 8000, Role: nodetypes.NODE_NORMAL, Free: selSize, Alive: 1, Eligible: true},
	{Name: "S1", Status: FullStatus, Rep: 10000, Role: nodetypes.NODE_SUPER, Free: selSize, Alive: 1, Eligible: true},
	{Name: "Xo", Status: nodetypes.NODE_STATUS_NA, Rep: 10000, Role: nodetypes.NODE_NORMAL, Free: selSize, Alive: 1},
	{Name: "Xn", Status: nodetypes.NODE_STATUS_ONLINE | nodetypes.NODE_STATUS_SERVE_STORAGE, Rep: 10000, Role: nodetypes.NODE_NORMAL, Free: selSize, Alive: 2},
	{Name: "Xr", Status: FullStatus, Rep: 7999.9, Role: nodetypes.NODE_NORMAL, Free: selSize, Alive: 2},
	{Name: "Xc", Status: FullStatus, Rep: 10000, Role: nodetypes.NODE_NORMAL, Free: selSize - 1, Alive: 2},
	{Name: "Sx", Status: nodetypes.NODE_STATUS_NA, Rep: 10000, Role: nodetypes.NODE_SUPER, Free: selSize, Alive: 1},
	{Name: "Sc", Status: FullStatus, Rep: 10000, Role: nodetypes.NODE_SUPER, Free: selSize - 1, Alive: 1},
	{Name: "Xp", Status: FullStatus, Rep: 10000, Role: nodetypes.NODE_NORMAL, Alive: 1, NoPledge: true},
}

var selSeeds = [][]byte{
	{}, {0x00}, {0x01}, {0x09}, {0x0a}, {0x63}, {0xff, 0xff, 0xff, 0xff, 0xff, 0xff, 0xff, 0xff},
	decSeed("1111111111111111111111111111111111111111111111111111111111111111111111111"),
	decSeed("98765432109876543210987654321098765432109876543210987654321098765432101"),
	decSeed("20000000000000000000000000000000000000000000000000000000000000000000002"),
}

func decSeed(s string) []byte {
	b, _ := new(big.Int).SetString(s, 10)
	return b.Bytes()
}

// multisets enumerates all multisets of size n over k classes (as non-decreasing index sequences).
func multisets(n, k int) [][]int {
	var out [][]int
	var rec func(start int, cur []int)
	rec = func(start int, cur []int) {
		if len(cur) == n {
			out = append(out, append([]int{}, cur...))
			return
		}
		for i := start; i < k; i++ {
			rec(i, append(cur, i))
		}
	}
	rec(0, nil)
	return out
}

// SelectExtra is the engine-E leg shared by C15 (placement oracle) and C02 (termination under the guard).
func SelectExtra(tier string, shard, of int, prop string) ExtraResult {
	res := ExtraResult{Notes: map[string]interface{}{}, Exhaustive: true}
	w := world.New(world.Config{})
	defer w.Close()
	k := w.App.NodeKeeper
	findings := map[string]engine.Finding{}
	add := func(f engine.Finding, label string) {
		f.Op = "select"
		f.Trace = []string{label}
		if _, ok := findings[f.Sig()]; !ok {
			findings[f.Sig()] = f
		}
	}

	// ---- 1. RandomIndex over all (total, count), seeds 0..N plus powers of two and big values
	maxSeed := int64(3000)
	if tier == "thorough" {
		maxSeed = 100000
	}
	var seeds []*big.Int
	for i := int64(0); i <= maxSeed; i++ {
		seeds = append(seeds, big.NewInt(i))
	}
	for p := 0; p <= 256; p += 1 {
		seeds = append(seeds, new(big.Int).Lsh(big.NewInt(1), uint(p)))
	}
	for _, s := range selSeeds {
		seeds = append(seeds, new(big.Int).SetBytes(s))
	}
	riCalls, riDistinct := 0, map[string]bool{}
	for si, seed := range seeds {
		if si%of != shard {
			continue
		}
		for total := 1; total <= 9; total++ {
			for count := 0; count < total; count++ {
				label := fmt.Sprintf("RandomIndex(seed=%s,total=%d,count=%d)", seed.String(), total, count)
				engine.Enter(label)
				idx := k.RandomIndex(new(big.Int).Set(seed), total, count)
				engine.Leave()
				riCalls++
				seen := map[int]bool{}
				bad := len(idx) != count
				for _, v := range idx {
					if v < 0 || v >= total || seen[v] {
						bad = true
					}
					seen[v] = true
				}
				if bad {
					add(fd("C15", "random-index", "not-count-distinct-in-range", fmt.Sprintf("%s = %v", label, idx)), label)
				}
				riDistinct[fmt.Sprint(total, count, idx)] = true
			}
		}
	}

	// ---- 2. RandomSP over node populations
	maxN := 4
	if tier == "thorough" {
		maxN = 5
	}
	addrs := []int{world.S1, world.S2, world.S3, world.S4, world.X}
	base := w.Snapshot(w.DeliverCtx(1))
	spCalls := 0
	outcomes := map[string]bool{}
	nontrivial := 0
	popIdx := 0
	var sample []interface{}
	for n := 0; n <= maxN; n++ {
		for _, ms := range multisets(n, len(nodeClasses)) {
			for _, rev := range []bool{false, true} {
				if rev && n < 2 {
					continue
				}
				popIdx++
				if popIdx%of != shard {
					continue
				}
				order := append([]int{}, ms...)
				if rev {
					for i, j := 0, len(order)-1; i < j; i, j = i+1, j-1 {
						order[i], order[j] = order[j], order[i]
					}
				}
				f := base.Clone()
				ctx, write := w.Ctx(f)
				cls := map[string]nodeClass{}
				var names []string
				eligible := 0
				for i, ci := range order {
					c := nodeClasses[ci]
					a := w.A(addrs[i]).S()
					cls[a] = c
					names = append(names, c.Name)
					k.SetNode(ctx, nodetypes.Node{Creator: a, Status: c.Status, Reputation: c.Rep, Role: c.Role, LastAliveHeight: c.Alive})
					if !c.NoPledge {
						k.SetPledge(ctx, nodetypes.Pledge{Creator: a, TotalStorage: c.Free + 10, UsedStorage: 10,
							TotalStoragePledged: sdk.NewInt64Coin(world.Denom, 1), TotalShardPledged: sdk.NewInt64Coin(world.Denom, 0),
							Reward: sdk.NewInt64DecCoin(world.Denom, 0), RewardDebt: sdk.NewInt64DecCoin(world.Denom, 0)})
					}
					if c.Eligible {
						eligible++
					}
				}
				write()
				// ignore lists: all subsets of size <= 2
				var ignores [][]string
				ignores = append(ignores, nil)
				for i := 0; i < n; i++ {
					ignores = append(ignores, []string{w.A(addrs[i]).S()})
					for j := i + 1; j < n; j++ {
						ignores = append(ignores, []string{w.A(addrs[i]).S(), w.A(addrs[j]).S()})
					}
				}
				for _, ign := range ignores {
					eligNotIgn := 0
					for a, c := range cls {
						if c.Eligible && !containsS(ign, a) {
							eligNotIgn++
						}
					}
					for count := 1; count <= 4; count++ {
						for cursor := -1; cursor <= 5; cursor++ {
							for si, seed := range selSeeds {
								c0, _ := w.Ctx(f)
								c0 = c0.WithBlockHeader(w.HeaderSeed(1, seed))
								if cursor >= 0 {
									k.SetNodeRound(c0, uint8(cursor))
								}
								label := fmt.Sprintf("RandomSP(pop=%s,ignore=%v,count=%d,cursor=%d,seed#%d)", strings.Join(names, "+"), ignNames(w, ign), count, cursor, si)
								engine.Enter(label)
								sel := k.RandomSP(c0, count, ign, selSize)
								engine.Leave()
								spCalls++
								var got []string
								dup := map[string]bool{}
								for _, nd := range sel {
									c := cls[nd.Creator]
									got = append(got, c.Name)
									if dup[nd.Creator] {
										add(fd("C15", "selection", "duplicate-provider", label+" -> "+fmt.Sprint(got)), label)
									}
									dup[nd.Creator] = true
									if containsS(ign, nd.Creator) {
										add(fd("C15", "selection", "ignored-provider-selected", label+" selected ignored "+c.Name), label)
									}
									if !c.Eligible {
										add(fd("C15", "selection", "ineligible-provider-selected:"+c.Name, label+" selected "+c.Name), label)
									}
								}
								if len(sel) > count {
									add(fd("C15", "selection", "more-than-requested", fmt.Sprintf("%s -> %d providers", label, len(sel))), label)
								}
								key := fmt.Sprintf("%d/%d/%d", count, eligNotIgn, len(sel))
								if !outcomes[key] {
									outcomes[key] = true
								}
								if len(sel) > 0 {
									nontrivial++
								}
								if len(sample) < 3 && len(sel) >= 2 {
									sample = append(sample, label+" -> "+fmt.Sprint(got))
								}
							}
						}
					}
				}
			}
		}
	}
	var sigs []string
	for s := range findings {
		sigs = append(sigs, s)
	}
	sort.Strings(sigs)
	for _, s := range sigs {
		f := findings[s]
		if prop == "C02" {
			continue // placement verdicts belong to C15; C02 uses this leg only for termination under the guard
		}
		res.Findings = append(res.Findings, f)
	}
	res.Evaluations = riCalls + spCalls
	res.Distinct = len(riDistinct) + len(outcomes)
	res.Samples = sample
	res.Notes["random_index_calls"] = riCalls
	res.Notes["random_sp_calls"] = spCalls
	res.Notes["random_sp_calls_selecting_a_provider"] = nontrivial
	res.Notes["distinct_selection_outcomes(count/eligible/returned)"] = len(outcomes)
	res.Notes["node_classes"] = len(nodeClasses)
	res.Notes["max_population"] = maxN
	_ = nodekeeper.SelectNodes
	return res
}

func ignNames(w *world.World, ign []string) []string {
	var out []string
	for _, a := range ign {
		out = append(out, w.NameOf(a))
	}
	return out
}
