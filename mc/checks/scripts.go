package checks

import (
	"encoding/json"
	"fmt"
	"os"
	"strconv"
	"time"

	"saomc/replica"
	"saomc/world"

	didkeeper "github.com/SaoNetwork/sao/x/did/keeper"
	didtypes "github.com/SaoNetwork/sao/x/did/types"
	nodetypes "github.com/SaoNetwork/sao/x/node/types"
	ordertypes "github.com/SaoNetwork/sao/x/order/types"
	saotypes "github.com/SaoNetwork/sao/x/sao/types"
	sdk "github.com/cosmos/cosmos-sdk/types"
	banktypes "github.com/cosmos/cosmos-sdk/x/bank/types"
	govv1beta1 "github.com/cosmos/cosmos-sdk/x/gov/types/v1beta1"
	paramproposal "github.com/cosmos/cosmos-sdk/x/params/types/proposal"
	stakingtypes "github.com/cosmos/cosmos-sdk/x/staking/types"
)

// wallNow is the wall clock when the harness process started. A proof dated relative to it flips between accepted
// and "out of date" inside the explored clock offsets if (and only if) a handler reads the node's clock instead of
// the block's: with the block time (2023 in these scripts) it is simply a future-dated proof on every replica.
var wallNow = func() int64 {
	// child processes of one check run share the parent's reading, so that they build byte-identical transactions
	if v, err := strconv.ParseInt(os.Getenv("VERIF_WALLNOW"), 10, 64); err == nil && v > 0 {
		return v
	}
	return time.Now().Unix()
}()

// WallNow exposes the reference to parents that spawn script-executing children.
func WallNow() int64 { return wallNow }

func fx(name string, mk func(w *world.World) sdk.Msg) replica.TxSpec {
	return replica.TxSpec{Name: name, Build: func(w *world.World, _ sdk.Context) sdk.Msg { return mk(w) }}
}

// completeOpen completes the k-th open (waiting / migrating) shard over all orders, in shard-id order.
func completeOpen(k int) replica.TxSpec {
	return replica.TxSpec{Name: fmt.Sprintf("complete#%d", k), Build: func(w *world.World, ctx sdk.Context) sdk.Msg {
		n := 0
		for _, sh := range w.App.OrderKeeper.GetAllShard(ctx) {
			if sh.Status == ordertypes.ShardWaiting || sh.Status == ordertypes.ShardMigrating {
				if n == k {
					oid := sh.OrderId
					// the order that lists the shard
					for _, o := range w.App.OrderKeeper.GetAllOrder(ctx) {
						if o.Operation != 3 && contains(o.Shards, sh.Id) {
							oid = o.Id
						}
					}
					return &saotypes.MsgComplete{Creator: sh.Sp, Provider: sh.Sp, OrderId: oid, Cid: sh.Cid, Size_: sh.Size_}
				}
				n++
			}
		}
		// nothing open: an invalid completion (still a transaction of the block)
		s1 := w.A(world.S1).S()
		return &saotypes.MsgComplete{Creator: s1, Provider: s1, OrderId: 9999, Cid: world.Cid, Size_: 1}
	}}
}

func holderOf(w *world.World, ctx sdk.Context, data string) string {
	for _, sh := range w.App.OrderKeeper.GetAllShard(ctx) {
		if sh.Status == ordertypes.ShardCompleted {
			if o, ok := w.App.OrderKeeper.GetOrder(ctx, sh.OrderId); ok && o.DataId == data {
				return sh.Sp
			}
		}
	}
	return w.A(world.S1).S()
}

// ScriptStorage: storage lifecycle with every custom message type, valid and invalid twins, and map-iteration
// sites that see >= 2 elements (terminate of a 3-shard model, force-push over a 2-shard version).
func ScriptStorage(long bool) *replica.Script {
	sc := &replica.Script{Name: "S1-storage", Cfg: world.Config{Fishmen: []int{world.W}, TwoValidators: true}}
	if long {
		sc.Name = "S4-storage-long"
	}
	full := func(i int) []replica.TxSpec {
		return []replica.TxSpec{
			fx(fmt.Sprintf("create(%d)", i), func(w *world.World) sdk.Msg { return &nodetypes.MsgCreate{Creator: w.A(i).S()} }),
			fx(fmt.Sprintf("reset(%d)", i), func(w *world.World) sdk.Msg { return &nodetypes.MsgReset{Creator: w.A(i).S(), Status: FullStatus} }),
			fx(fmt.Sprintf("addv(%d)", i), func(w *world.World) sdk.Msg { return &nodetypes.MsgAddVstorage{Creator: w.A(i).S(), Size_: 10_000_000} }),
		}
	}
	var b1 []replica.TxSpec
	for _, o := range []int{world.O, world.X} {
		o := o
		b1 = append(b1, fx(fmt.Sprintf("payaddr(%d)", o), func(w *world.World) sdk.Msg {
			return &didtypes.MsgUpdatePaymentAddress{Creator: w.A(o).S(), AccountId: w.A(o).AccountId(), Did: w.A(o).Did}
		}))
	}
	b1 = append(b1, fx("payaddr-again(invalid)", func(w *world.World) sdk.Msg {
		return &didtypes.MsgUpdatePaymentAddress{Creator: w.A(world.O).S(), AccountId: w.A(world.O).AccountId(), Did: w.A(world.O).Did}
	}))
	ts := uint64(world.BlockTime(1).Unix())
	b1 = append(b1,
		fx("bind(sid,proof 14 min old)", func(w *world.World) sdk.Msg {
			sd := world.NewSid("R1", "script-sid-1", ts-14*60)
			return world.BindingMsg(sd, w.A(world.T), w.A(world.T), world.CosmosProof(w.A(world.T), sd.Did, "bind "+sd.Did, ts-14*60))
		}),
		fx("bind(sid,proof 16 min old,invalid)", func(w *world.World) sdk.Msg {
			sd := world.NewSid("R2", "script-sid-2", ts-16*60)
			return world.BindingMsg(sd, w.A(world.P), w.A(world.P), world.CosmosProof(w.A(world.P), sd.Did, "bind "+sd.Did, ts-16*60))
		}),
		fx("bind(sid,proof 5 wall-clock minutes old)", func(w *world.World) sdk.Msg {
			wts := uint64(wallNow - 5*60)
			sd := world.NewSid("R3", "script-sid-3", wts)
			return world.BindingMsg(sd, w.A(world.V2), w.A(world.V2), world.CosmosProof(w.A(world.V2), sd.Did, "bind "+sd.Did, wts))
		}),
		fx("create(G)", func(w *world.World) sdk.Msg { return &nodetypes.MsgCreate{Creator: w.A(world.G).S()} }),
		fx("reset(G)", func(w *world.World) sdk.Msg {
			return &nodetypes.MsgReset{Creator: w.A(world.G).S(), Status: GatewayStatus}
		}),
		fx("create(W)", func(w *world.World) sdk.Msg { return &nodetypes.MsgCreate{Creator: w.A(world.W).S()} }),
		fx("create(G)-again(invalid)", func(w *world.World) sdk.Msg { return &nodetypes.MsgCreate{Creator: w.A(world.G).S()} }),
	)
	for _, s := range []int{world.S1, world.S2, world.S3, world.S4} {
		b1 = append(b1, full(s)...)
	}
	store := func(name string, p StoreP) replica.TxSpec {
		return fx(name, func(w *world.World) sdk.Msg { return StoreMsg(w, p) })
	}
	b2 := []replica.TxSpec{
		store("store(D1,r2)", StoreP{Signer: world.O, Relayer: world.G, Gateway: world.G, DataId: world.Data1, CommitId: world.Data1, Size: 10000, Replica: 2, Duration: 3600, Timeout: 100}),
		store("store(D1)-again(invalid)", StoreP{Signer: world.O, Relayer: world.G, Gateway: world.G, DataId: world.Data1, CommitId: world.Data1, Size: 10000, Replica: 2, Duration: 3600, Timeout: 100}),
		store("store(D2,r3)", StoreP{Signer: world.O, Relayer: world.G, Gateway: world.G, DataId: world.Data2, CommitId: world.Data2, Size: 1000, Replica: 3, Duration: 3600, Timeout: 100}),
		fx("store(bad signature,invalid)", func(w *world.World) sdk.Msg {
			m := StoreMsg(w, StoreP{Signer: world.O, Relayer: world.G, Gateway: world.G, DataId: "33333333-3333-3333-3333-333333333333", CommitId: "33333333-3333-3333-3333-333333333333", Size: 1000, Replica: 1, Duration: 3600, Timeout: 100})
			m.Proposal.Size_ = 2000
			return m
		}),
		fx("ready(o1,invalid)", func(w *world.World) sdk.Msg {
			g := w.A(world.G).S()
			return &saotypes.MsgReady{Creator: g, Provider: g, OrderId: 1}
		}),
		fx("cancel(o9,invalid)", func(w *world.World) sdk.Msg {
			g := w.A(world.G).S()
			return &saotypes.MsgCancel{Creator: g, Provider: g, OrderId: 9}
		}),
	}
	b3 := []replica.TxSpec{completeOpen(0), completeOpen(0), completeOpen(0), completeOpen(0), completeOpen(0), completeOpen(0),
		fx("complete(wrong sp,invalid)", func(w *world.World) sdk.Msg {
			x := w.A(world.X).S()
			return &saotypes.MsgComplete{Creator: x, Provider: x, OrderId: 1, Cid: world.Cid, Size_: 10000}
		})}
	b4 := []replica.TxSpec{
		fx("renew(D1,7200)", func(w *world.World) sdk.Msg {
			return RenewMsg(w, world.O, world.G, world.G, 7200, 100, world.Data1, world.Data2)
		}),
		fx("permission(D1)", func(w *world.World) sdk.Msg {
			return PermissionMsg(w, world.O, world.G, world.G, world.Data1, []string{w.A(world.X).Did}, nil)
		}),
		fx("permission(D1,stranger,invalid)", func(w *world.World) sdk.Msg {
			return PermissionMsg(w, world.X, world.G, world.G, world.Data1, nil, []string{w.A(world.X).Did})
		}),
		{Name: "migrate(holder,D1)", Build: func(w *world.World, ctx sdk.Context) sdk.Msg {
			h := holderOf(w, ctx, world.Data1)
			return &saotypes.MsgMigrate{Creator: h, Provider: h, Data: []string{world.Data1, world.Data2}}
		}},
		{Name: "claim(holder)", Build: func(w *world.World, ctx sdk.Context) sdk.Msg {
			return &nodetypes.MsgClaimReward{Creator: holderOf(w, ctx, world.Data1)}
		}},
		{Name: "report(W,holder)", Build: func(w *world.World, ctx sdk.Context) sdk.Msg {
			h := holderOf(w, ctx, world.Data1)
			var fs []*saotypes.Fault
			for _, sh := range w.App.OrderKeeper.GetAllShard(ctx) {
				if sh.Sp == h && sh.Status == ordertypes.ShardCompleted {
					o, _ := w.App.OrderKeeper.GetOrder(ctx, sh.OrderId)
					fs = append(fs, &saotypes.Fault{DataId: o.DataId, OrderId: o.Id, ShardId: sh.Id, CommitId: "zz", Provider: h})
				}
			}
			return &saotypes.MsgReportFaults{Creator: w.A(world.W).S(), Provider: h, Faults: fs}
		}},
		fx("report(X,invalid)", func(w *world.World) sdk.Msg {
			return &saotypes.MsgReportFaults{Creator: w.A(world.X).S(), Provider: w.A(world.S1).S()}
		}),
	}
	b5 := []replica.TxSpec{completeOpen(0), completeOpen(0),
		{Name: "recover(holder)", Build: func(w *world.World, ctx sdk.Context) sdk.Msg {
			h := holderOf(w, ctx, world.Data1)
			var fs []*saotypes.Fault
			for _, f := range AllFaults(w, ctx) {
				o, _ := w.App.OrderKeeper.GetOrder(ctx, f.OrderId)
				fs = append(fs, &saotypes.Fault{DataId: f.DataId, OrderId: f.OrderId, ShardId: f.ShardId, CommitId: o.Commit, Provider: f.Provider})
			}
			return &saotypes.MsgRecoverFaults{Creator: h, Provider: h, Faults: fs}
		}},
		{Name: "update(D1)", Build: func(w *world.World, ctx sdk.Context) sdk.Msg {
			m, _ := w.App.ModelKeeper.GetMetadata(ctx, world.Data1)
			return StoreMsg(w, StoreP{Signer: world.O, Relayer: world.G, Gateway: world.G, DataId: world.Data1, CommitId: m.Commit + "|" + commitName(7), Size: 10000, Replica: 2, Duration: 3600, Timeout: 100, Cid: world.Cid2, Alias: m.Alias})
		}},
		fx("terminate(D1,stranger,invalid)", func(w *world.World) sdk.Msg { return TerminateMsg(w, world.X, world.G, world.G, world.Data1) }),
	}
	b6 := []replica.TxSpec{completeOpen(0), completeOpen(0),
		{Name: "forcepush(D1)", Build: func(w *world.World, ctx sdk.Context) sdk.Msg {
			m, _ := w.App.ModelKeeper.GetMetadata(ctx, world.Data1)
			return StoreMsg(w, StoreP{Signer: world.O, Relayer: world.G, Gateway: world.G, DataId: world.Data1, CommitId: m.Commit + "|" + commitName(8), Size: 10000, Replica: 2, Duration: 3600, Timeout: 100, Operation: 2, Alias: m.Alias})
		}},
	}
	b7 := []replica.TxSpec{completeOpen(0), completeOpen(0),
		fx("terminate(D2,3 shards)", func(w *world.World) sdk.Msg { return TerminateMsg(w, world.O, world.G, world.G, world.Data2) }),
		fx("removev(S4)", func(w *world.World) sdk.Msg {
			return &nodetypes.MsgRemoveVstorage{Creator: w.A(world.S4).S(), Size_: 1_000_000}
		}),
		fx("removev(S4,too much,invalid)", func(w *world.World) sdk.Msg {
			return &nodetypes.MsgRemoveVstorage{Creator: w.A(world.S4).S(), Size_: 900_000_000}
		}),
		fx("claim(S2)", func(w *world.World) sdk.Msg { return &nodetypes.MsgClaimReward{Creator: w.A(world.S2).S()} }),
	}
	sc.Blocks = []replica.Block{{Txs: b1}, {Txs: b2}, {Txs: b3}, {Txs: b4}, {Txs: b5}, {Txs: b6}, {Txs: b7, SkipTo: 110}}
	if long {
		sc.Blocks[len(sc.Blocks)-1].SkipTo = 3700
		sc.Blocks = append(sc.Blocks, replica.Block{Txs: []replica.TxSpec{
			fx("claim(S1)", func(w *world.World) sdk.Msg { return &nodetypes.MsgClaimReward{Creator: w.A(world.S1).S()} }),
			fx("terminate(D1)", func(w *world.World) sdk.Msg { return TerminateMsg(w, world.O, world.G, world.G, world.Data1) })}})
	}
	return sc
}

// ScriptStaking: super-node role maintenance through the staking hooks, including a delegation that fails between
// the two hooks (the residue path) followed by a first-time delegation of a node.
func ScriptStaking() *replica.Script {
	sc := &replica.Script{Name: "S2-staking", Cfg: world.Config{TwoValidators: true, VstorageThresh: 1_000_000}}
	val := func(w *world.World, i int) string { return sdk.ValAddress(w.A(i).Addr).String() }
	coin := func(n int64) sdk.Coin { return sdk.NewInt64Coin(world.Denom, n) }
	node := func(i int) []replica.TxSpec {
		return []replica.TxSpec{
			fx(fmt.Sprintf("create(%d)", i), func(w *world.World) sdk.Msg { return &nodetypes.MsgCreate{Creator: w.A(i).S()} }),
			fx(fmt.Sprintf("reset(%d,full)", i), func(w *world.World) sdk.Msg { return &nodetypes.MsgReset{Creator: w.A(i).S(), Status: FullStatus} }),
			fx(fmt.Sprintf("addv(%d)", i), func(w *world.World) sdk.Msg { return &nodetypes.MsgAddVstorage{Creator: w.A(i).S(), Size_: 2_000_000} }),
		}
	}
	del := func(name string, who, v int, amt int64) replica.TxSpec {
		return fx(name, func(w *world.World) sdk.Msg {
			return &stakingtypes.MsgDelegate{DelegatorAddress: w.A(who).S(), ValidatorAddress: val(w, v), Amount: coin(amt)}
		})
	}
	b1 := append(node(world.S1), del("delegate(T,500M)", world.T, world.V, 500_000_000))
	// the first delegation of node S1 is alone in its block: a Simulate of the failing delegation of T (next block)
	// inserted before it leaves hook residue on that replica only
	b2 := []replica.TxSpec{
		del("delegate(S1,150M,first delegation)", world.S1, world.V, 150_000_000),
	}
	b3 := append(node(world.S2),
		del("delegate(T,2e12>balance,fails between the hooks)", world.T, world.V, 2_000_000_000_000),
		del("delegate(S2,20M,below threshold)", world.S2, world.V, 20_000_000),
		fx("undelegate(T,100M)", func(w *world.World) sdk.Msg {
			return &stakingtypes.MsgUndelegate{DelegatorAddress: w.A(world.T).S(), ValidatorAddress: val(w, world.V), Amount: coin(100_000_000)}
		}),
		del("delegate(S2,200M)", world.S2, world.V, 200_000_000),
	)
	b4 := []replica.TxSpec{
		fx("redelegate(T,V->V2,100M)", func(w *world.World) sdk.Msg {
			return &stakingtypes.MsgBeginRedelegate{DelegatorAddress: w.A(world.T).S(), ValidatorSrcAddress: val(w, world.V), ValidatorDstAddress: val(w, world.V2), Amount: coin(100_000_000)}
		}),
		fx("undelegate(S1,all)", func(w *world.World) sdk.Msg {
			return &stakingtypes.MsgUndelegate{DelegatorAddress: w.A(world.S1).S(), ValidatorAddress: val(w, world.V), Amount: coin(150_000_000)}
		}),
		fx("removev(S2,below threshold)", func(w *world.World) sdk.Msg {
			return &nodetypes.MsgRemoveVstorage{Creator: w.A(world.S2).S(), Size_: 1_500_000}
		}),
		fx("reset(S2,validator V2,invalid delegation)", func(w *world.World) sdk.Msg {
			return &nodetypes.MsgReset{Creator: w.A(world.S2).S(), Status: FullStatus, Validator: val(w, world.V2)}
		}),
		del("delegate(S1,300M,again)", world.S1, world.V, 300_000_000),
	}
	sc.Blocks = []replica.Block{{Txs: b1}, {Txs: b2}, {Txs: b3}, {Txs: b4, SkipTo: 8}}
	return sc
}

// ScriptTies: selections made with a non-empty ignore list (migration, timeout re-assignment) among several
// providers that tie on last-alive height and reputation, so that any dependence of the choice on the order of
// an unordered collection shows up as a different provider.
func ScriptTies() *replica.Script {
	sc := &replica.Script{Name: "S3-ties", Cfg: world.Config{}}
	var b1 []replica.TxSpec
	b1 = append(b1, fx("payaddr(O)", func(w *world.World) sdk.Msg {
		return &didtypes.MsgUpdatePaymentAddress{Creator: w.A(world.O).S(), AccountId: w.A(world.O).AccountId(), Did: w.A(world.O).Did}
	}),
		fx("create(G)", func(w *world.World) sdk.Msg { return &nodetypes.MsgCreate{Creator: w.A(world.G).S()} }),
		fx("reset(G)", func(w *world.World) sdk.Msg {
			return &nodetypes.MsgReset{Creator: w.A(world.G).S(), Status: GatewayStatus}
		}))
	for _, i := range []int{world.S1, world.S2, world.S3, world.S4, world.W, world.Q} {
		i := i
		b1 = append(b1,
			fx(fmt.Sprintf("create(%d)", i), func(w *world.World) sdk.Msg { return &nodetypes.MsgCreate{Creator: w.A(i).S()} }),
			fx(fmt.Sprintf("reset(%d)", i), func(w *world.World) sdk.Msg { return &nodetypes.MsgReset{Creator: w.A(i).S(), Status: FullStatus} }),
			fx(fmt.Sprintf("addv(%d)", i), func(w *world.World) sdk.Msg { return &nodetypes.MsgAddVstorage{Creator: w.A(i).S(), Size_: 10_000_000} }))
	}
	b2 := []replica.TxSpec{
		fx("store(D1,r1)", func(w *world.World) sdk.Msg {
			return StoreMsg(w, StoreP{Signer: world.O, Relayer: world.G, Gateway: world.G, DataId: world.Data1, CommitId: world.Data1, Size: 1000, Replica: 1, Duration: 3600, Timeout: 100})
		}),
		fx("store(D2,r2,timeout 10)", func(w *world.World) sdk.Msg {
			return StoreMsg(w, StoreP{Signer: world.O, Relayer: world.G, Gateway: world.G, DataId: world.Data2, CommitId: world.Data2, Size: 1000, Replica: 2, Duration: 3600, Timeout: 10})
		}),
	}
	b3 := []replica.TxSpec{completeOpen(0),
		{Name: "migrate(holder,D1)", Build: func(w *world.World, ctx sdk.Context) sdk.Msg {
			h := holderOf(w, ctx, world.Data1)
			return &saotypes.MsgMigrate{Creator: h, Provider: h, Data: []string{world.Data1}}
		}}}
	// D2's two providers stay silent: the end-blocker at height 12 re-assigns both shards (ignore list = 2 providers)
	b4 := []replica.TxSpec{completeOpen(2)}
	b5 := []replica.TxSpec{completeOpen(0), completeOpen(0), completeOpen(0)}
	sc.Blocks = []replica.Block{{Txs: b1}, {Txs: b2}, {Txs: b3}, {Txs: b4, SkipTo: 13}, {Txs: b5, SkipTo: 25}}
	return sc
}

// ScriptSidRewards: an owner with a did:sid identity (its documents are resolved on every signature check) stores,
// renews, updates and terminates, while block rewards are minted and the reward supply crosses its first halving
// threshold at a height that is not a reward-adjustment height; every height up to the second adjustment height is a
// stream position (restart / non-consensus calls between any two blocks).
func ScriptSidRewards() *replica.Script {
	const firstHalving = 200_000_000_000_000
	sc := &replica.Script{Name: "S5-sid-rewards", Cfg: world.Config{BlockReward: 1_000_000, Baseline: 1, AdjustmentPeriod: 20, GenesisReward: firstHalving - 3_500_000}}
	ts := uint64(world.BlockTime(1).Unix())
	sd := world.NewSid("R5", "script-sid-5", ts)
	g := func(w *world.World) string { return w.A(world.G).S() }
	sidStore := func(name, commit string, op uint32, cid string) replica.TxSpec {
		return replica.TxSpec{Name: name, Build: func(w *world.World, ctx sdk.Context) sdk.Msg {
			c := commit
			if m, ok := w.App.ModelKeeper.GetMetadata(ctx, world.Data1); ok && commit != world.Data1 {
				c = m.Commit + "|" + commit
			}
			p := saotypes.Proposal{Owner: sd.Did, Provider: g(w), GroupId: "g", Duration: 3600, Replica: 1, Timeout: 100, Alias: "alias-sid", DataId: world.Data1, CommitId: c, Cid: cid, Size_: 1_000_000, Operation: op}
			return &saotypes.MsgStore{Creator: g(w), Provider: g(w), Proposal: p, JwsSignature: world.SignKid(sd.KeyPriv, sd.Kid(sd.DocId), &p)}
		}}
	}
	node := func(i int, st uint32) []replica.TxSpec {
		return []replica.TxSpec{
			fx(fmt.Sprintf("create(%d)", i), func(w *world.World) sdk.Msg { return &nodetypes.MsgCreate{Creator: w.A(i).S()} }),
			fx(fmt.Sprintf("reset(%d)", i), func(w *world.World) sdk.Msg { return &nodetypes.MsgReset{Creator: w.A(i).S(), Status: st} }),
		}
	}
	b1 := append(node(world.G, GatewayStatus), node(world.S1, FullStatus)...)
	b1 = append(b1, node(world.S2, FullStatus)...)
	b1 = append(b1,
		fx("addv(S1)", func(w *world.World) sdk.Msg {
			return &nodetypes.MsgAddVstorage{Creator: w.A(world.S1).S(), Size_: 10_000_000}
		}),
		fx("addv(S2)", func(w *world.World) sdk.Msg {
			return &nodetypes.MsgAddVstorage{Creator: w.A(world.S2).S(), Size_: 5_000_000}
		}),
		fx("payaddr(O)", func(w *world.World) sdk.Msg {
			return &didtypes.MsgUpdatePaymentAddress{Creator: w.A(world.O).S(), AccountId: w.A(world.O).AccountId(), Did: w.A(world.O).Did}
		}),
		fx("bind(sid)", func(w *world.World) sdk.Msg {
			return world.BindingMsg(sd, w.A(world.T), w.A(world.T), world.CosmosProof(w.A(world.T), sd.Did, "bind "+sd.Did, ts))
		}))
	b2 := []replica.TxSpec{sidStore("store(sid owner)", world.Data1, 1, world.Cid)}
	b3 := []replica.TxSpec{completeOpen(0)}
	b4 := []replica.TxSpec{
		fx("renew(sid owner)", func(w *world.World) sdk.Msg {
			rp := saotypes.RenewProposal{Owner: sd.Did, Duration: 7200, Timeout: 100, Data: []string{world.Data1}}
			return &saotypes.MsgRenew{Creator: g(w), Provider: g(w), Proposal: rp, JwsSignature: world.SignKid(sd.KeyPriv, sd.Kid(sd.DocId), &rp)}
		}),
		fx("claim(S1)", func(w *world.World) sdk.Msg { return &nodetypes.MsgClaimReward{Creator: w.A(world.S1).S()} }),
	}
	// a second account joins the sid DID, then the DID rotates its keys and drops that account again; the rotation is
	// dated relative to the wall clock (see wallNow): a handler that compares it with the node's clock instead of the
	// block's flips between accepted and "out of date" inside the explored clock offsets
	rotTs := uint64(wallNow - 5*60)
	newKeys := []*didtypes.PubKey{{Name: "k1", Value: sd.Keys[0].Value}, {Name: "k2", Value: world.NewSid("k2", "script-sid-5-second-key", 0).Keys[0].Value}}
	newDoc, _ := didkeeper.CalculateDocId(newKeys, rotTs)
	b4 = append(b4, fx("bind(sid,second account V2)", func(w *world.World) sdk.Msg {
		t4 := uint64(world.BlockTime(4).Unix())
		m := world.BindingMsg(sd, w.A(world.V2), w.A(world.T), world.CosmosProof(w.A(world.V2), sd.Did, "bind "+sd.Did, t4))
		return m
	}))
	b5 := []replica.TxSpec{sidStore("update(sid owner)", commitName(5), 1, world.Cid2),
		{Name: "rotate(sid,drop V2)", Build: func(w *world.World, ctx sdk.Context) sdk.Msg {
			l, _ := w.App.DidKeeper.GetAccountList(ctx, sd.Did)
			m := &didtypes.MsgUpdate{Creator: w.A(world.T).S(), Did: sd.Did, NewDocId: newDoc, Keys: newKeys, Timestamp: rotTs, PastSeed: "seed-1"}
			for _, ad := range l.AccountDids {
				if id, ok := w.App.DidKeeper.GetAccountId(ctx, ad); ok && id.AccountId == w.A(world.V2).AccountId() {
					m.RemoveAccountDid = append(m.RemoveAccountDid, ad)
				} else {
					m.UpdateAccountAuth = append(m.UpdateAccountAuth, &didtypes.AccountAuth{AccountDid: ad, AccountEncryptedSeed: "s2", SidEncryptedAccount: "e2"})
				}
			}
			return m
		}}}
	b6 := []replica.TxSpec{completeOpen(0),
		fx("permission(sid owner)", func(w *world.World) sdk.Msg {
			pp := saotypes.PermissionProposal{Owner: sd.Did, DataId: world.Data1, ReadwriteDids: []string{w.A(world.O).Did}}
			return &saotypes.MsgUpdataPermission{Creator: g(w), Provider: g(w), Proposal: pp, JwsSignature: world.SignKid(sd.KeyPriv, sd.Kid(sd.DocId), &pp)}
		})}
	b7 := []replica.TxSpec{
		fx("claim(S1)", func(w *world.World) sdk.Msg { return &nodetypes.MsgClaimReward{Creator: w.A(world.S1).S()} }),
		fx("claim(S2)", func(w *world.World) sdk.Msg { return &nodetypes.MsgClaimReward{Creator: w.A(world.S2).S()} }),
		fx("terminate(sid owner)", func(w *world.World) sdk.Msg {
			// signed under the document version created by the rotation
			tp := saotypes.TerminateProposal{Owner: sd.Did, DataId: world.Data1}
			return &saotypes.MsgTerminate{Creator: g(w), Provider: g(w), Proposal: tp, JwsSignature: world.SignKid(sd.KeyPriv, sd.Kid(newDoc), &tp)}
		})}
	sc.Blocks = []replica.Block{{Txs: b1}, {Txs: b2}, {Txs: b3}, {Txs: b4}, {Txs: b5}, {Txs: b6, SkipTo: 42, EveryHeight: true}, {Txs: b7}}
	return sc
}

// ScriptGovParams: the node module's parameters are changed by a governance proposal (written to the parameter store by
// the gov end-blocker, not through the keeper's own setters) while nodes, an order, a fault report and rewards depend on
// them; every height is a stream position.
func ScriptGovParams() *replica.Script {
	// the pledge stays far below the baseline, so the reward is the APY-based one (pledge x APY / (halving period / 2));
	// adjustment heights are 20 and 40
	sc := &replica.Script{Name: "S6-gov-params", Cfg: world.Config{GovFast: true, OfflineTrigger: 30, VstorageThresh: 500_000_000, Baseline: 1_000_000_000, BlockReward: 500_000, HalvingPeriod: 12, AdjustmentPeriod: 20, APY: "0.5"}}
	coin := func(n int64) sdk.Coin { return sdk.NewInt64Coin(world.Denom, n) }
	node := func(i int, st uint32) []replica.TxSpec {
		return []replica.TxSpec{
			fx(fmt.Sprintf("create(%d)", i), func(w *world.World) sdk.Msg { return &nodetypes.MsgCreate{Creator: w.A(i).S()} }),
			fx(fmt.Sprintf("reset(%d)", i), func(w *world.World) sdk.Msg { return &nodetypes.MsgReset{Creator: w.A(i).S(), Status: st} }),
		}
	}
	b1 := append(node(world.G, GatewayStatus), node(world.S1, FullStatus)...)
	b1 = append(b1, node(world.S2, FullStatus)...)
	b1 = append(b1, node(world.W, GatewayStatus)...)
	b1 = append(b1,
		fx("addv(S1)", func(w *world.World) sdk.Msg {
			return &nodetypes.MsgAddVstorage{Creator: w.A(world.S1).S(), Size_: 10_000_000}
		}),
		fx("addv(S2)", func(w *world.World) sdk.Msg {
			return &nodetypes.MsgAddVstorage{Creator: w.A(world.S2).S(), Size_: 10_000_000}
		}),
		fx("payaddr(O)", func(w *world.World) sdk.Msg {
			return &didtypes.MsgUpdatePaymentAddress{Creator: w.A(world.O).S(), AccountId: w.A(world.O).AccountId(), Did: w.A(world.O).Did}
		}),
		fx("delegate(S1,200M)", func(w *world.World) sdk.Msg {
			return &stakingtypes.MsgDelegate{DelegatorAddress: w.A(world.S1).S(), ValidatorAddress: sdk.ValAddress(w.A(world.V).Addr).String(), Amount: coin(200_000_000)}
		}))
	store := func(name, data string) replica.TxSpec {
		return fx(name, func(w *world.World) sdk.Msg {
			return StoreMsg(w, StoreP{Signer: world.O, Relayer: world.G, Gateway: world.G, DataId: data, CommitId: data, Size: 1_000_000, Replica: 1, Duration: 3600, Timeout: 100})
		})
	}
	report := replica.TxSpec{Name: "report(W)", Build: func(w *world.World, ctx sdk.Context) sdk.Msg {
		var fs []*saotypes.Fault
		prov := w.A(world.S1).S()
		for _, sh := range w.App.OrderKeeper.GetAllShard(ctx) {
			if sh.Status == ordertypes.ShardCompleted {
				o, _ := w.App.OrderKeeper.GetOrder(ctx, sh.OrderId)
				prov = sh.Sp
				fs = append(fs, &saotypes.Fault{DataId: o.DataId, OrderId: o.Id, ShardId: sh.Id, CommitId: "zz", Provider: sh.Sp})
				break
			}
		}
		return &saotypes.MsgReportFaults{Creator: w.A(world.W).S(), Provider: prov, Faults: fs}
	}}
	b2 := []replica.TxSpec{store("store(D1)", world.Data1), completeOpen(0), report,
		fx("submit(param changes)", func(w *world.World) sdk.Msg {
			br, _ := json.Marshal(coin(1_000_000))
			content := paramproposal.NewParameterChangeProposal("node parameters", "offline window, rewards, fishmen, capacity threshold", []paramproposal.ParamChange{
				paramproposal.NewParamChange(nodetypes.ModuleName, string(nodetypes.KeyOfflineTriggerHeight), `"4"`),
				paramproposal.NewParamChange(nodetypes.ModuleName, string(nodetypes.KeyBlockReward), string(br)),
				paramproposal.NewParamChange(nodetypes.ModuleName, string(nodetypes.KeyFishmenInfo), `"`+w.A(world.W).S()+`"`),
				paramproposal.NewParamChange(nodetypes.ModuleName, string(nodetypes.KeyVstorageThreshold), `"50000000"`),
				paramproposal.NewParamChange(nodetypes.ModuleName, string(nodetypes.KeyAPY), `"0.1"`),
			})
			m, err := govv1beta1.NewMsgSubmitProposal(content, sdk.NewCoins(coin(1000)), w.A(world.V).Addr)
			if err != nil {
				panic(err)
			}
			return m
		}),
		fx("vote(V,yes)", func(w *world.World) sdk.Msg { return govv1beta1.NewMsgVote(w.A(world.V).Addr, 1, govv1beta1.OptionYes) })}
	// heights 3..6 pass (the proposal is executed by the gov end-blocker when its voting period ends), then the
	// parameters matter: S1 refreshes its registration (role decision under the new threshold), W reports again (now a
	// fishman), a second order needs an online provider under the new offline window, rewards are claimed
	b3 := []replica.TxSpec{
		fx("reset(S1,validator V)", func(w *world.World) sdk.Msg {
			return &nodetypes.MsgReset{Creator: w.A(world.S1).S(), Status: FullStatus, Validator: sdk.ValAddress(w.A(world.V).Addr).String()}
		}),
		report}
	b4 := []replica.TxSpec{store("store(D2)", world.Data2), completeOpen(0),
		fx("claim(S1)", func(w *world.World) sdk.Msg { return &nodetypes.MsgClaimReward{Creator: w.A(world.S1).S()} }),
		fx("claim(S2)", func(w *world.World) sdk.Msg { return &nodetypes.MsgClaimReward{Creator: w.A(world.S2).S()} })}
	sc.Blocks = []replica.Block{{Txs: b1}, {Txs: b2, SkipTo: 7, EveryHeight: true}, {Txs: b3, SkipTo: 13, EveryHeight: true}, {Txs: b4, SkipTo: 43, EveryHeight: true},
		{Txs: []replica.TxSpec{fx("claim(S1,end)", func(w *world.World) sdk.Msg { return &nodetypes.MsgClaimReward{Creator: w.A(world.S1).S()} })}}}
	return sc
}

// ScriptSuperRound: three super nodes share the round-robin cursor; the set shrinks below the cursor, a store fails
// after its provider selection (the payer cannot afford it), the set grows back, and another order is placed.
func ScriptSuperRound() *replica.Script {
	sc := &replica.Script{Name: "S7-super-round", Cfg: world.Config{VstorageThresh: 1_000_000}}
	val := func(w *world.World) string { return sdk.ValAddress(w.A(world.V).Addr).String() }
	coin := func(n int64) sdk.Coin { return sdk.NewInt64Coin(world.Denom, n) }
	var b1 []replica.TxSpec
	b1 = append(b1,
		fx("payaddr(O)", func(w *world.World) sdk.Msg {
			return &didtypes.MsgUpdatePaymentAddress{Creator: w.A(world.O).S(), AccountId: w.A(world.O).AccountId(), Did: w.A(world.O).Did}
		}),
		fx("payaddr(X)", func(w *world.World) sdk.Msg {
			return &didtypes.MsgUpdatePaymentAddress{Creator: w.A(world.X).S(), AccountId: w.A(world.X).AccountId(), Did: w.A(world.X).Did}
		}),
		fx("create(G)", func(w *world.World) sdk.Msg { return &nodetypes.MsgCreate{Creator: w.A(world.G).S()} }),
		fx("reset(G)", func(w *world.World) sdk.Msg {
			return &nodetypes.MsgReset{Creator: w.A(world.G).S(), Status: GatewayStatus}
		}))
	for _, i := range []int{world.S1, world.S2, world.S3} {
		i := i
		b1 = append(b1,
			fx(fmt.Sprintf("create(%d)", i), func(w *world.World) sdk.Msg { return &nodetypes.MsgCreate{Creator: w.A(i).S()} }),
			fx(fmt.Sprintf("addv(%d)", i), func(w *world.World) sdk.Msg { return &nodetypes.MsgAddVstorage{Creator: w.A(i).S(), Size_: 10_000_000} }),
			fx(fmt.Sprintf("delegate(%d,200M)", i), func(w *world.World) sdk.Msg {
				return &stakingtypes.MsgDelegate{DelegatorAddress: w.A(i).S(), ValidatorAddress: val(w), Amount: coin(200_000_000)}
			}),
			fx(fmt.Sprintf("reset(%d,full,V)", i), func(w *world.World) sdk.Msg {
				return &nodetypes.MsgReset{Creator: w.A(i).S(), Status: FullStatus, Validator: val(w)}
			}))
	}
	// X keeps almost nothing: its own store fails at the balance check, after the providers were selected
	b1 = append(b1, replica.TxSpec{Name: "send(X->T,all but 5)", Build: func(w *world.World, ctx sdk.Context) sdk.Msg {
		b := w.App.BankKeeper.GetBalance(ctx, w.A(world.X).Addr, world.Denom)
		return &banktypes.MsgSend{FromAddress: w.A(world.X).S(), ToAddress: w.A(world.T).S(), Amount: sdk.NewCoins(sdk.NewCoin(world.Denom, b.Amount.SubRaw(5)))}
	}})
	store := func(name string, signer int, data string) replica.TxSpec {
		return fx(name, func(w *world.World) sdk.Msg {
			return StoreMsg(w, StoreP{Signer: signer, Relayer: world.G, Gateway: world.G, DataId: data, CommitId: data, Size: 1_000_000, Replica: 1, Duration: 3600, Timeout: 100})
		})
	}
	d := func(n int) string {
		return fmt.Sprintf("%d%d%d%d%d%d%d%d-aaaa-aaaa-aaaa-aaaaaaaaaaaa", n, n, n, n, n, n, n, n)
	}
	b2 := []replica.TxSpec{store("store(d1)", world.O, d(1)), store("store(d2)", world.O, d(2)), completeOpen(0), completeOpen(0)}
	narrow := func(i int) replica.TxSpec {
		return fx(fmt.Sprintf("reset(%d,not accepting)", i), func(w *world.World) sdk.Msg {
			return &nodetypes.MsgReset{Creator: w.A(i).S(), Status: nodetypes.NODE_STATUS_ONLINE | nodetypes.NODE_STATUS_SERVE_STORAGE, Validator: val(w)}
		})
	}
	widen := func(i int) replica.TxSpec {
		return fx(fmt.Sprintf("reset(%d,full again)", i), func(w *world.World) sdk.Msg {
			return &nodetypes.MsgReset{Creator: w.A(i).S(), Status: FullStatus, Validator: val(w)}
		})
	}
	b3 := []replica.TxSpec{narrow(world.S2), narrow(world.S3), store("store(d3,payer cannot afford it,invalid)", world.X, d(3))}
	b4 := []replica.TxSpec{widen(world.S2), widen(world.S3), store("store(d4)", world.O, d(4)), store("store(d5)", world.O, d(5)), completeOpen(0), completeOpen(0)}
	b5 := []replica.TxSpec{store("store(d6)", world.O, d(6)), completeOpen(0)}
	sc.Blocks = []replica.Block{{Txs: b1}, {Txs: b2}, {Txs: b3}, {Txs: b4}, {Txs: b5}}
	return sc
}

// AllScripts lists every engine-R script (the child processes of the restart leg look them up by name).
func AllScripts() []*replica.Script {
	return []*replica.Script{ScriptStorage(false), ScriptStaking(), ScriptTies(), ScriptSidRewards(), ScriptGovParams(), ScriptSuperRound(), ScriptStorage(true)}
}
