package checks

import (
	"encoding/json"
	"fmt"
	"os"
	"os/exec"
	"path/filepath"
	"sort"
	"strings"

	"saomc/engine"
	"saomc/replica"
)

// ReplicaExtra is engine R: for every script, replica A runs plainly and replica B once per enumerated
// environment deviation; any difference in the consensus transcript is a violation.
func ReplicaExtra(prop, tier string, shard, of int) ExtraResult {
	res := ExtraResult{Notes: map[string]interface{}{}, Exhaustive: true}
	scripts := []*replica.Script{ScriptStorage(false), ScriptStaking(), ScriptTies(), ScriptSidRewards(), ScriptGovParams(), ScriptSuperRound()}
	if tier == "thorough" {
		scripts = append(scripts, ScriptStorage(true))
	}
	findings := map[string]engine.Finding{}
	runs, applied := 0, 0
	okTx, failTx := 0, 0
	for _, sc := range scripts {
		engine.Enter("replica A " + sc.Name)
		a, positions, _, ntx := replica.Run(sc, nil)
		a2, _, _, _ := replica.Run(sc, nil)
		engine.Leave()
		runs += 2
		if d := replica.Diff(a, a2); d != "" {
			// two plain runs of the same script in one process must agree; if they do not, the code under test is
			// not a function of its inputs (that is itself what C01 forbids)
			f := fd(prop, "replica-divergence", "two-plain-runs", sc.Name+": "+d)
			f.Op = "none"
			f.Trace = []string{sc.Name, "none"}
			findings[f.Sig()] = f
		}
		if shard == 0 {
			for _, it := range a.Items {
				if strings.Contains(it.What, " tx ") {
					if strings.HasPrefix(it.Note, "code=0 ") {
						okTx++
					} else {
						failTx++
					}
				}
			}
		}
		long := strings.Contains(sc.Name, "long")
		var devs [][]replica.Deviation
		one := func(d replica.Deviation) { devs = append(devs, []replica.Deviation{d}) }
		if prop == "C01" {
			for _, off := range []int64{-400 * 86400, -3600, 3600, 400 * 86400} {
				one(replica.Deviation{Kind: "clock", Pos: 0, Arg: off})
			}
			for wd := int64(1); wd <= 8; wd++ {
				one(replica.Deviation{Kind: "mapword", Pos: 0, Arg: wd})
			}
			if !long {
				for p := 0; p < positions; p++ {
					// quick tier: the transactions around the current stream position (the ones a mempool would hold);
					// thorough: every transaction of the script at every position
					near := func(j int) bool {
						if tier == "thorough" {
							return true
						}
						cur := p * ntx / positions
						return j >= cur-6 && j <= cur+12
					}
					for j := 0; j < ntx; j++ {
						if near(j) {
							one(replica.Deviation{Kind: "simulate", Pos: p, Arg: int64(j)})
						}
					}
					for j := 0; j < ntx; j += 3 {
						if near(j) {
							one(replica.Deviation{Kind: "checktx", Pos: p, Arg: int64(j)})
						}
					}
					one(replica.Deviation{Kind: "query", Pos: p, Arg: -1}) // the whole query menu at once
					// "how long the process has been running": one replica restarts from its database here
					one(replica.Deviation{Kind: "restart", Pos: p})
					if tier == "thorough" {
						for wd := int64(1); wd <= 8; wd++ {
							one(replica.Deviation{Kind: "mapword", Pos: p, Arg: wd})
						}
						one(replica.Deviation{Kind: "clock", Pos: p, Arg: 3600})
					}
				}
			}
		} else { // C03
			for p := 0; p < positions; p++ {
				one(replica.Deviation{Kind: "restart", Pos: p})
				one(replica.Deviation{Kind: "midcrash", Pos: p})
				if !long {
					for j := 0; j < ntx; j++ {
						if cur := p * ntx / positions; tier == "thorough" || (j >= cur-6 && j <= cur+12) {
							one(replica.Deviation{Kind: "simulate", Pos: p, Arg: int64(j)})
						}
					}
				}
			}
			if tier == "thorough" && !long {
				for p := 0; p < positions; p++ {
					for q := p + 1; q < positions; q++ {
						devs = append(devs, []replica.Deviation{{Kind: "restart", Pos: p}, {Kind: "midcrash", Pos: q}})
						devs = append(devs, []replica.Deviation{{Kind: "midcrash", Pos: p}, {Kind: "restart", Pos: q}})
					}
				}
			}
		}
		for i, dv := range devs {
			if i%of != shard {
				continue
			}
			label := sc.Name + " " + fmt.Sprint(dv)
			engine.Enter("replica B " + label)
			b, _, ap, _ := replica.Run(sc, dv)
			engine.Leave()
			runs++
			if ap > 0 || dv[0].Kind == "clock" || dv[0].Kind == "mapword" {
				applied++
			}
			if d := replica.Diff(a, b); d != "" {
				engine.Enter("replica B again " + label)
				b2, _, _, _ := replica.Run(sc, dv)
				engine.Leave()
				runs++
				stable := replica.Diff(b, b2) == ""
				what := strings.SplitN(strings.SplitN(d, "A{", 2)[1], " ", 2)[0]
				f := fd(prop, "replica-divergence", dv[0].Kind, fmt.Sprintf("%s: %s (reproduced on re-run: %v)", label, d, stable))
				_ = what
				f.Op = dv[0].Kind
				f.Trace = []string{sc.Name, fmt.Sprint(dv)}
				if old, ok := findings[f.Sig()]; !ok || len(f.Detail) < len(old.Detail) {
					findings[f.Sig()] = f
				}
			}
			if len(res.Samples) < 3 && i%97 == 0 {
				res.Samples = append(res.Samples, label)
			}
		}
	}
	// C03 only: restart in a NEW OPERATING-SYSTEM PROCESS over an on-disk database after every block of every script
	// (this also resets Go package-level state, which an in-process restart cannot)
	procRestarts := 0
	if prop == "C03" {
		self, _ := os.Executable()
		child := func(sc *replica.Script, dir string, from, to int) ([]replica.Item, error) {
			out := filepath.Join(dir, fmt.Sprintf("part-%d-%d.json", from, to))
			cmd := exec.Command(self, "rpart", sc.Name, filepath.Join(dir, "db"), fmt.Sprint(from), fmt.Sprint(to), out)
			cmd.Env = append(os.Environ(), "GOMAXPROCS=2", fmt.Sprintf("VERIF_WALLNOW=%d", WallNow()))
			if b, err := cmd.CombinedOutput(); err != nil {
				return nil, fmt.Errorf("%v: %s", err, b)
			}
			bz, err := os.ReadFile(out)
			if err != nil {
				return nil, err
			}
			var items []replica.Item
			return items, json.Unmarshal(bz, &items)
		}
		idx := 0
		for _, sc := range scripts {
			n := len(sc.Blocks)
			var base []replica.Item
			for k := 0; k < n; k++ { // k == 0: the uninterrupted child
				idx++
				if k != 0 && idx%of != shard {
					continue
				}
				if k == 0 {
					// every shard needs the baseline of the scripts it works on
				}
				dir, _ := os.MkdirTemp("", "saomc-prestart-")
				var got []replica.Item
				var err error
				if k == 0 {
					got, err = child(sc, dir, 0, n)
					base = got
				} else {
					var a1, a2 []replica.Item
					a1, err = child(sc, dir, 0, k)
					if err == nil {
						a2, err = child(sc, dir, k, n)
					}
					got = append(a1, a2...)
					procRestarts++
				}
				os.RemoveAll(dir)
				if err != nil {
					panic("HARNESS: process-restart child failed: " + err.Error())
				}
				if k == 0 {
					continue
				}
				d := replica.Diff(&replica.Transcript{Items: base}, &replica.Transcript{Items: got})
				if d != "" {
					f := fd(prop, "replica-divergence", "process-restart", fmt.Sprintf("%s restarted in a new process after block %d: %s", sc.Name, k, d))
					f.Op = "process-restart"
					f.Trace = []string{sc.Name, fmt.Sprintf("process-restart after block %d", k)}
					findings[f.Sig()] = f
				}
				runs++
				applied++
			}
		}
	}
	var sigs []string
	for s := range findings {
		sigs = append(sigs, s)
	}
	sort.Strings(sigs)
	for _, s := range sigs {
		res.Findings = append(res.Findings, findings[s])
	}
	res.Notes["restarts_in_a_new_os_process"] = procRestarts
	res.Evaluations = runs
	res.Distinct = applied
	res.Notes["replica_runs"] = runs
	res.Notes["deviations_applied"] = applied
	res.Notes["baseline_txs_accepted"] = okTx
	res.Notes["baseline_txs_rejected"] = failTx
	res.Notes["std_overlay_active(clock+map seams)"] = replica.OverlayActive
	res.Notes["scripts"] = len(scripts)
	return res
}
