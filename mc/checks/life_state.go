package checks

import (
	"fmt"

	"saomc/engine"

	ordertypes "github.com/SaoNetwork/sao/x/order/types"
	sdk "github.com/cosmos/cosmos-sdk/types"
)

func fd(prop, clause, disc, detail string) engine.Finding {
	return engine.Finding{Property: prop, Clause: clause, Disc: disc, Detail: detail}
}

// C13State: referential integrity of orders, shards, data models and schedules.
func C13State(s *Snap, g *lifeGhost) []engine.Finding {
	var out []engine.Finding
	for _, oid := range s.OrderIds {
		o := s.Orders[oid]
		for _, id := range o.Shards {
			if _, ok := s.Shards[id]; !ok {
				kind := "store-order"
				if o.Operation == 3 {
					kind = "renew-order"
					if g != nil && g.RenewMig[o.Id] {
						kind = "renew-order-created-during-pending-migration"
					}
				}
				out = append(out, fd("C13", "order-lists-missing-shard", kind, fmt.Sprintf("order %d (op %d) lists shard %d which does not exist", o.Id, o.Operation, id)))
			}
		}
	}
	scheduled := map[uint64]map[uint64]bool{}
	for h, l := range s.ExpShard {
		for _, id := range l {
			if scheduled[id] == nil {
				scheduled[id] = map[uint64]bool{}
			}
			scheduled[id][h] = true
		}
	}
	for _, sid := range s.ShardIds {
		sh := s.Shards[sid]
		o, ok := s.Orders[sh.OrderId]
		if !ok {
			out = append(out, fd("C13", "shard-names-missing-order", shardStatusName(sh.Status), fmt.Sprintf("shard %d names order %d which does not exist", sh.Id, sh.OrderId)))
		} else if !contains(o.Shards, sh.Id) {
			out = append(out, fd("C13", "shard-not-listed-by-its-order", shardStatusName(sh.Status), fmt.Sprintf("shard %d names order %d which does not list it (%v)", sh.Id, sh.OrderId, o.Shards)))
		}
		if sh.Status == ordertypes.ShardCompleted {
			end := sh.CreatedAt + sh.Duration
			if !scheduled[sh.Id][end] {
				out = append(out, fd("C13", "completed-shard-without-release-entry", "", fmt.Sprintf("shard %d ends at %d but ExpiredShard[%d] does not name it", sh.Id, end, end)))
			}
			if int64(end) < s.H {
				out = append(out, fd("C13", "completed-shard-past-its-end", "", fmt.Sprintf("shard %d ended at %d, height %d", sh.Id, end, s.H)))
			}
		}
	}
	// every data model has exactly one alias entry pointing back at it, and vice versa
	back := map[string]int{}
	for _, k := range sortedKeys(s.Models) {
		d := s.Models[k]
		back[d]++
		m, ok := s.Metas[d]
		if !ok {
			out = append(out, fd("C13", "alias-without-model", "", fmt.Sprintf("alias %q points at %s which does not exist", k, d)))
		} else if key := fmt.Sprintf("%s-%s-%s", m.Owner, m.Alias, m.GroupId); key != k {
			out = append(out, fd("C13", "alias-key-mismatch", "", fmt.Sprintf("alias %q points at %s whose key is %q", k, d, key)))
		}
	}
	for _, d := range sortedKeys(s.Metas) {
		if back[d] != 1 {
			out = append(out, fd("C13", "model-alias-count", fmt.Sprint(back[d]), fmt.Sprintf("model %s has %d alias entries", d, back[d])))
		}
		m := s.Metas[d]
		// the model's deletion must be scheduled (nothing unreachable from the schedules)
		end := m.CreatedAt + m.Duration
		if !containsS(s.ExpData[end], d) {
			out = append(out, fd("C13", "model-without-expiry-entry", "", fmt.Sprintf("model %s ends at %d but ExpiredData[%d]=%v", d, end, end, s.ExpData[end])))
		}
	}
	return out
}

func statusName(st int32) string {
	switch st {
	case ordertypes.OrderPending:
		return "pending"
	case ordertypes.OrderDataReady:
		return "data-ready"
	case ordertypes.OrderCompleted:
		return "completed"
	}
	return fmt.Sprint(st)
}

func shardStatusName(st int32) string {
	switch st {
	case ordertypes.ShardWaiting:
		return "waiting"
	case ordertypes.ShardCompleted:
		return "completed"
	case ordertypes.ShardMigrating:
		return "migrating"
	case ordertypes.ShardTimeout:
		return "timeout"
	}
	return fmt.Sprint(st)
}

// C14State: per-provider counters equal the sums over the shards it currently stores; pool totals equal sums
// over providers.
func C14State(s *Snap) []engine.Finding {
	var out []engine.Finding
	used := map[string]uint64{}
	rate := map[string]sdk.Dec{}
	coll := map[string]sdk.Int{}
	for _, sid := range s.ShardIds {
		sh := s.Shards[sid]
		if sh.Status != ordertypes.ShardCompleted {
			continue
		}
		used[sh.Sp] += sh.Size_
		if _, ok := rate[sh.Sp]; !ok {
			rate[sh.Sp] = sdk.ZeroDec()
			coll[sh.Sp] = sdk.ZeroInt()
		}
		if o, ok := s.Orders[sh.OrderId]; ok {
			rate[sh.Sp] = rate[sh.Sp].Add(o.UnitPrice.Amount.MulInt64(int64(sh.Size_)))
		}
		if !sh.Pledge.Amount.IsNil() {
			coll[sh.Sp] = coll[sh.Sp].Add(sh.Pledge.Amount)
		}
	}
	totalStorage, totalPledged := int64(0), sdk.ZeroInt()
	for _, sp := range sortedKeys(s.Pledges) {
		p := s.Pledges[sp]
		name := s.w.NameOf(sp)
		totalStorage += p.TotalStorage
		totalPledged = totalPledged.Add(p.TotalStoragePledged.Amount)
		if p.UsedStorage != int64(used[sp]) {
			out = append(out, fd("C14", "used-storage", cmp(p.UsedStorage > int64(used[sp])), fmt.Sprintf("%s UsedStorage=%d, its completed shards sum to %d", name, p.UsedStorage, used[sp])))
		}
		c := coll[sp]
		if c.IsNil() {
			c = sdk.ZeroInt()
		}
		if !p.TotalShardPledged.Amount.Equal(c) {
			out = append(out, fd("C14", "shard-collateral", cmp(p.TotalShardPledged.Amount.GT(c)), fmt.Sprintf("%s TotalShardPledged=%s, its shards' collateral sums to %s", name, p.TotalShardPledged.Amount, c)))
		}
	}
	for _, sp := range sortedKeys(s.Workers) {
		wk := s.Workers[sp]
		name := s.w.NameOf(sp)
		if wk.Storage != used[sp] {
			out = append(out, fd("C14", "worker-storage", cmp(wk.Storage > used[sp]), fmt.Sprintf("%s Worker.Storage=%d, its completed shards sum to %d", name, wk.Storage, used[sp])))
		}
		r, ok := rate[sp]
		if !ok {
			r = sdk.ZeroDec()
		}
		if !wk.IncomePerSecond.Amount.Equal(r) {
			out = append(out, fd("C14", "worker-rate", cmp(wk.IncomePerSecond.Amount.GT(r)), fmt.Sprintf("%s income rate=%s, sum of price*size=%s", name, wk.IncomePerSecond.Amount, r)))
		}
	}
	for _, sp := range sortedKeys(used) {
		if _, ok := s.Workers[sp]; !ok {
			out = append(out, fd("C14", "worker-missing", "", fmt.Sprintf("%s stores shards but has no market account", s.w.NameOf(sp))))
		}
		if _, ok := s.Pledges[sp]; !ok {
			out = append(out, fd("C14", "pledge-missing", "", fmt.Sprintf("%s stores shards but has no pledge", s.w.NameOf(sp))))
		}
	}
	if s.Pool.TotalStorage != totalStorage {
		out = append(out, fd("C14", "pool-storage", cmp(s.Pool.TotalStorage > totalStorage), fmt.Sprintf("Pool.TotalStorage=%d, providers sum to %d", s.Pool.TotalStorage, totalStorage)))
	}
	if !s.Pool.TotalPledged.Amount.Equal(totalPledged) {
		out = append(out, fd("C14", "pool-pledged", cmp(s.Pool.TotalPledged.Amount.GT(totalPledged)), fmt.Sprintf("Pool.TotalPledged=%s, providers' capacity pledges sum to %s", s.Pool.TotalPledged.Amount, totalPledged)))
	}
	return out
}

func cmp(over bool) string {
	if over {
		return "over"
	}
	return "under"
}
