package checks

import (
	"encoding/hex"
	"fmt"
	"strings"

	"saomc/engine"
	"saomc/world"

	didkeeper "github.com/SaoNetwork/sao/x/did/keeper"
	didtypes "github.com/SaoNetwork/sao/x/did/types"
	"github.com/cosmos/cosmos-sdk/crypto/keys/secp256k1"
	sdk "github.com/cosmos/cosmos-sdk/types"
	ethcrypto "github.com/ethereum/go-ethereum/crypto"
)

// C17: DID registry integrity. Alphabet over three cosmos accounts (A,B,C), one eip155 account (E), two sid DIDs
// (d1,d2) and the key DIDs of A and B.

var (
	didAccts = []int{world.W, world.Q, world.X} // A, B, C
	didNames = map[int]string{world.W: "A", world.Q: "B", world.X: "C"}
	sidD1    = world.NewSid("d1", "c17-sid-1", uint64(world.BlockTime(1).Unix()))
	sidD2    = world.NewSid("d2", "c17-sid-2", uint64(world.BlockTime(1).Unix()))
	ethPriv  = secp256k1.GenPrivKeyFromSecret([]byte("c17-eth-account"))
)

func ethAccount() (accountId, addr string) {
	k, err := ethcrypto.ToECDSA(ethPriv.Key)
	if err != nil {
		panic(err)
	}
	addr = strings.ToLower(ethcrypto.PubkeyToAddress(k.PublicKey).Hex())
	return "eip155:1:" + addr, addr
}

func ethProof(did, message string, ts uint64) *didtypes.BindingProof {
	k, _ := ethcrypto.ToECDSA(ethPriv.Key)
	hash := ethcrypto.Keccak256([]byte("\u0019Ethereum Signed Message:\n" + fmt.Sprint(len(message)) + message))
	sig, err := ethcrypto.Sign(hash, k)
	if err != nil {
		panic(err)
	}
	sig[64] += 27
	_, addr := ethAccount()
	return &didtypes.BindingProof{Version: 1, Message: message, Timestamp: ts, Did: did, Account: addr, Signature: "0x" + hex.EncodeToString(sig)}
}

type didSnap struct {
	Dids     map[string]string   // accountId -> did
	Lists    map[string][]string // did -> accountDids
	AccIds   map[string]string   // accountDid -> accountId
	Auths    map[string]bool     // accountDid -> has auth
	PayAddr  map[string]string   // did -> address
	Kids     map[string]string   // address -> key did
	Versions map[string][]string
}

func takeDidSnap(w *world.World, ctx sdk.Context) *didSnap {
	k := w.App.DidKeeper
	s := &didSnap{Dids: map[string]string{}, Lists: map[string][]string{}, AccIds: map[string]string{}, Auths: map[string]bool{}, PayAddr: map[string]string{}, Kids: map[string]string{}, Versions: map[string][]string{}}
	for _, d := range k.GetAllDid(ctx) {
		s.Dids[d.AccountId] = d.Did
	}
	for _, l := range k.GetAllAccountList(ctx) {
		s.Lists[l.Did] = l.AccountDids
	}
	for _, a := range k.GetAllAccountId(ctx) {
		s.AccIds[a.AccountDid] = a.AccountId
	}
	for _, a := range k.GetAllAccountAuth(ctx) {
		s.Auths[a.AccountDid] = true
	}
	for _, p := range k.GetAllPaymentAddress(ctx) {
		s.PayAddr[p.Did] = p.Address
	}
	for _, kd := range k.GetAllKid(ctx) {
		s.Kids[kd.Address] = kd.Kid
	}
	for _, v := range k.GetAllSidDocumentVersion(ctx) {
		s.Versions[v.DocId] = v.VersionList
	}
	return s
}

func didSnapOf(w *world.World, ctx sdk.Context, s *engine.State) *didSnap {
	if s.Memo == nil {
		s.Memo = map[string]interface{}{}
	}
	if v, ok := s.Memo["did"]; ok {
		return v.(*didSnap)
	}
	d := takeDidSnap(w, ctx)
	s.Memo["did"] = d
	return d
}

type DidOracle struct{}

func (DidOracle) InitGhost(*world.World, sdk.Context) engine.Ghost { return nullGhost{} }

func (DidOracle) State(w *world.World, ctx sdk.Context, st *engine.State) []engine.Finding {
	s := didSnapOf(w, ctx, st)
	var out []engine.Finding
	// Did[acct]=d  <=>  exactly one account-did in AccountList[d] maps to acct
	for _, acc := range sortedKeys(s.Dids) {
		d := s.Dids[acc]
		n := 0
		for _, ad := range s.Lists[d] {
			if s.AccIds[ad] == acc {
				n++
			}
		}
		if n != 1 {
			out = append(out, fd("C17", "bound-account-vs-account-list", fmt.Sprint(n), fmt.Sprintf("account %s is bound to %s but %d entries of that DID's account list map to it", short1(acc), short1(d), n)))
		}
	}
	seenAcc := map[string]string{}
	for _, d := range sortedKeys(s.Lists) {
		for _, ad := range s.Lists[d] {
			acc, ok := s.AccIds[ad]
			if !ok {
				out = append(out, fd("C17", "account-list-entry-without-account", "", fmt.Sprintf("account list of %s contains %s which maps to no account id", short1(d), ad)))
				continue
			}
			if s.Dids[acc] != d {
				out = append(out, fd("C17", "account-list-entry-not-bound", "", fmt.Sprintf("account list of %s contains %s (account %s) which is bound to %q", short1(d), ad, short1(acc), short1(s.Dids[acc]))))
			}
			if !s.Auths[ad] {
				out = append(out, fd("C17", "account-list-entry-without-auth", "", fmt.Sprintf("account list of %s contains %s which has no account auth", short1(d), ad)))
			}
			if other, dup := seenAcc[acc]; dup && other != d {
				out = append(out, fd("C17", "account-in-two-dids", "", fmt.Sprintf("account %s appears in the lists of %s and %s", short1(acc), short1(other), short1(d))))
			}
			seenAcc[acc] = d
		}
	}
	// the same account under two spellings (bech32 and hex addresses are case-insensitive) is still one account
	canonAcc := map[string][]string{}
	for _, acc := range sortedKeys(s.Dids) {
		// an account id is network:chain:address; case and anything after a third ':' do not make another account
		c := strings.ToLower(acc)
		if p := strings.SplitN(c, ":", 4); len(p) == 4 {
			c = strings.Join(p[:3], ":")
		}
		canonAcc[c] = append(canonAcc[c], acc)
	}
	for _, c := range sortedKeys(canonAcc) {
		if len(canonAcc[c]) > 1 {
			out = append(out, fd("C17", "account-bound-under-two-spellings", "", fmt.Sprintf("account %s is bound %d times: %v", short1(c), len(canonAcc[c]), canonAcc[c])))
		}
	}
	canonKid := map[string][]string{}
	for _, addr := range sortedKeys(s.Kids) {
		canonKid[strings.ToLower(addr)] = append(canonKid[strings.ToLower(addr)], addr)
	}
	for _, c := range sortedKeys(canonKid) {
		if l := canonKid[c]; len(l) > 1 && s.Kids[l[0]] != s.Kids[l[1]] {
			out = append(out, fd("C17", "address-linked-to-two-key-dids", "spelling", fmt.Sprintf("address %s is linked to key DIDs %s and %s under two spellings of the same address", w.NameOf(c), short1(s.Kids[l[0]]), short1(s.Kids[l[1]]))))
		}
	}
	byAddr := map[string]string{}
	for _, d := range sortedKeys(s.PayAddr) {
		addr := s.PayAddr[d]
		if strings.HasPrefix(d, "did:sid:") {
			if s.Dids["cosmos:"+world.ChainID+":"+addr] != d {
				out = append(out, fd("C17", "sid-payment-address-not-bound", "", fmt.Sprintf("payment address %s of %s is not an account bound to it", w.NameOf(addr), short1(d))))
			}
		} else {
			if s.Kids[addr] != d {
				out = append(out, fd("C17", "key-did-payment-address-without-kid", "", fmt.Sprintf("payment address %s of %s has kid %q", w.NameOf(addr), short1(d), short1(s.Kids[addr]))))
			}
			if other, dup := byAddr[addr]; dup {
				out = append(out, fd("C17", "address-linked-to-two-key-dids", "", fmt.Sprintf("%s is payment address of %s and %s", w.NameOf(addr), short1(other), short1(d))))
			}
			byAddr[addr] = d
		}
	}
	for _, addr := range sortedKeys(s.Kids) {
		if s.PayAddr[s.Kids[addr]] != addr {
			out = append(out, fd("C17", "kid-without-payment-address", "", fmt.Sprintf("Kid[%s]=%s but its payment address is %q", w.NameOf(addr), short1(s.Kids[addr]), s.PayAddr[s.Kids[addr]])))
		}
	}
	return out
}

func short1(s string) string {
	if len(s) > 20 {
		return s[:8] + ".." + s[len(s)-6:]
	}
	return s
}

func (DidOracle) Step(si *engine.StepInfo) []engine.Finding {
	if si.Post == nil {
		return nil
	}
	var out []engine.Finding
	w := si.W
	pre, post := didSnapOf(w, si.PreCtx, si.Pre), didSnapOf(w, si.PostCtx, si.Post)
	// new bindings need a valid, fresh proof for that DID by the account's own key, submitted by a bound account
	for _, acc := range sortedKeys(post.Dids) {
		if _, had := pre.Dids[acc]; had {
			continue
		}
		if si.Op.Kind != "bind" {
			out = append(out, fd("C17", "binding-created-by-other-message", si.Op.Kind, fmt.Sprintf("%s created binding %s -> %s", si.Op.Label, short1(acc), short1(post.Dids[acc]))))
			continue
		}
		if v := si.Op.Meta["proof"]; v != "valid" {
			out = append(out, fd("C17", "binding-accepted-with-bad-proof", v, fmt.Sprintf("%s accepted: account %s bound to %s", si.Op.Label, short1(acc), short1(post.Dids[acc]))))
		}
		if si.Op.Meta["did_existed"] == "1" && si.Op.Meta["creator_bound"] != "1" {
			out = append(out, fd("C17", "binding-submitted-by-unbound-creator", "", fmt.Sprintf("%s accepted although the DID exists and the creator is not bound to it", si.Op.Label)))
		}
	}
	// the payment account of a sid DID is never unbound
	for _, d := range sortedKeys(pre.PayAddr) {
		if !strings.HasPrefix(d, "did:sid:") {
			// key DID: address never changes once set
			if q, ok := post.PayAddr[d]; !ok || q != pre.PayAddr[d] {
				out = append(out, fd("C17", "key-did-payment-address-changed", "", fmt.Sprintf("%s: payment address of %s changed from %s to %q", si.Op.Label, short1(d), w.NameOf(pre.PayAddr[d]), q)))
			}
			continue
		}
		acc := "cosmos:" + world.ChainID + ":" + pre.PayAddr[d]
		if pre.Dids[acc] == d && post.Dids[acc] != d && post.PayAddr[d] == pre.PayAddr[d] {
			out = append(out, fd("C17", "payment-account-unbound", "", fmt.Sprintf("%s unbound %s, the payment account of %s", si.Op.Label, w.NameOf(pre.PayAddr[d]), short1(d))))
		}
	}
	// a key rotation of one DID leaves the records of every other DID alone (whether a malformed list is accepted is
	// not the property's concern; what it does to the registry is, through the state clauses)
	if did := si.Op.Meta["did"]; did != "" {
		for _, d := range sortedKeys(pre.Lists) {
			if d == did {
				continue
			}
			same := len(pre.Lists[d]) == len(post.Lists[d])
			for i := 0; same && i < len(pre.Lists[d]); i++ {
				ad := pre.Lists[d][i]
				same = post.Lists[d][i] == ad && pre.AccIds[ad] == post.AccIds[ad] && pre.Auths[ad] == post.Auths[ad] && pre.Dids[pre.AccIds[ad]] == post.Dids[pre.AccIds[ad]]
			}
			if !same {
				out = append(out, fd("C17", "rotation-touched-other-did", "", fmt.Sprintf("%s changed the account records of %s", si.Op.Label, short1(d))))
			}
		}
	}
	// a key DID's payment address is set only by that address itself
	for _, d := range sortedKeys(post.PayAddr) {
		if strings.HasPrefix(d, "did:sid:") {
			continue
		}
		if _, had := pre.PayAddr[d]; !had && si.Op.Msg != nil {
			if creator := si.Op.Msg.GetSigners()[0].String(); !strings.EqualFold(creator, post.PayAddr[d]) {
				out = append(out, fd("C17", "key-did-address-set-by-other", "", fmt.Sprintf("%s: %s set %s as payment address of %s", si.Op.Label, w.NameOf(creator), w.NameOf(post.PayAddr[d]), short1(d))))
			}
		}
	}
	return out
}

func (DidOracle) NonTrivial(w *world.World, ctx sdk.Context, s *engine.State) bool {
	return len(didSnapOf(w, ctx, s).Dids) > 0
}

func C17Scenario(tier string) *engine.Scenario {
	d := 4
	if tier == "thorough" {
		d = 6
	}
	sc := &engine.Scenario{ID: "C17-did", Depth: d, Oracle: DidOracle{}}
	sc.Roots = []engine.Root{{Name: "D0", Setup: func(w *world.World) []engine.SetupStep { return nil }}}
	sc.Ops = func(w *world.World, ctx sdk.Context, s *engine.State) []engine.Op { return didOps(w, ctx, tier) }
	return sc
}

func didOps(w *world.World, ctx sdk.Context, tier string) []engine.Op {
	var out []engine.Op
	k := w.App.DidKeeper
	now := uint64(ctx.BlockTime().Unix())
	sids := []*world.Sid{sidD1, sidD2}
	ethId, _ := ethAccount()
	type acct struct {
		name  string
		id    string
		actor *world.Actor // nil for eip155
	}
	accts := []acct{}
	for _, i := range didAccts {
		accts = append(accts, acct{didNames[i], w.A(i).AccountId(), w.A(i)})
	}
	accts = append(accts, acct{"E", ethId, nil})
	// the same eth account under its EIP-55 checksum spelling (hex addresses are case-insensitive: still one account);
	// offered for the second DID only, which keeps the alphabet small and still lets one account meet two DIDs
	k17, _ := ethcrypto.ToECDSA(ethPriv.Key)
	ethChecksum := "eip155:1:" + ethcrypto.PubkeyToAddress(k17.PublicKey).Hex()
	for _, sd := range sids {
		_, existed := k.GetSidDocumentVersion(ctx, sd.DocId)
		other := sidD1
		if sd == sidD1 {
			other = sidD2
		}
		accts := accts
		if sd == sidD2 {
			accts = append([]acct{}, accts...)
			if ethChecksum != ethId {
				accts = append(accts, acct{"Ec", ethChecksum, nil})
			}
			// the first cosmos account again, with a trailing segment after the address
			accts = append(accts, acct{didNames[didAccts[0]] + "x", w.A(didAccts[0]).AccountId() + ":1", w.A(didAccts[0])})
		}
		for _, ac := range accts {
			creators := []int{world.W}
			if ac.actor != nil && ac.actor.Idx != world.W {
				creators = append(creators, ac.actor.Idx)
			}
			for _, ci := range creators {
				cr := w.A(ci)
				bound := k.CreatorIsBoundToDid(ctx, cr.S(), sd.Did) == nil
				variants := []string{"valid", "stale", "other-key", "for-other-did", "malformed"}
				for _, v := range variants {
					msgText := "bind " + sd.Did
					ts := sd.Ts
					if existed {
						ts = now
					}
					var proof *didtypes.BindingProof
					mkp := func(signer *world.Actor, text string, t uint64) *didtypes.BindingProof {
						if ac.actor == nil {
							return ethProof(sd.Did, text, t)
						}
						p := world.CosmosProof(signer, sd.Did, text, t)
						p.Account = ac.actor.S()
						return p
					}
					switch v {
					case "valid":
						proof = mkp(ac.actor, msgText, ts)
					case "stale":
						if !existed {
							continue // the first binding's timestamp is part of the doc id: staleness only applies later
						}
						proof = mkp(ac.actor, msgText, now-3600)
					case "other-key":
						if ac.actor == nil {
							proof = ethProof(sd.Did, msgText, ts)
							proof.Signature = proof.Signature[:len(proof.Signature)-4] + "0000"
						} else {
							proof = mkp(w.A(world.S4), msgText, ts)
						}
					case "for-other-did":
						proof = mkp(ac.actor, "bind "+other.Did, ts) // a proof the account signed for the other DID, replayed
					case "malformed":
						proof = mkp(ac.actor, msgText, ts)
						proof.Signature = "garbage"
					}
					m := &didtypes.MsgBinding{Creator: cr.S(), AccountId: ac.id, RootDocId: sd.DocId, Keys: sd.Keys,
						AccountAuth: &didtypes.AccountAuth{AccountDid: "did:key:acct-" + ac.name + "-" + sd.Name, AccountEncryptedSeed: "s", SidEncryptedAccount: "e"}, Proof: proof}
					out = append(out, engine.Op{Label: fmt.Sprintf("bind(%s->%s,by=%s,proof=%s)", ac.name, sd.Name, cr.Name, v), Kind: "bind", Msg: m,
						Meta: map[string]string{"proof": v, "did_existed": cmpb(existed, "1", "0"), "creator_bound": cmpb(bound, "1", "0")}})
				}
			}
		}
		// key rotation / unbinding: every partition of the account list into remove / keep, plus malformed ones
		if l, ok := k.GetAccountList(ctx, sd.Did); ok && len(l.AccountDids) > 0 {
			n := len(l.AccountDids)
			vers, _ := k.GetSidDocumentVersion(ctx, sd.DocId)
			newKeys := []*didtypes.PubKey{{Name: "k1", Value: sd.Keys[0].Value}, {Name: "k2", Value: fmt.Sprintf("rot%d", len(vers.VersionList))}}
			newDoc, _ := didkeeper.CalculateDocId(newKeys, now)
			for mask := 0; mask < 1<<n; mask++ {
				var rm []string
				var up []*didtypes.AccountAuth
				for i, ad := range l.AccountDids {
					if mask&(1<<i) != 0 {
						rm = append(rm, ad)
					} else {
						up = append(up, &didtypes.AccountAuth{AccountDid: ad, AccountEncryptedSeed: "s2", SidEncryptedAccount: "e2"})
					}
				}
				for _, ci := range []int{world.W, world.X} {
					m := &didtypes.MsgUpdate{Creator: w.A(ci).S(), Did: sd.Did, NewDocId: newDoc, Keys: newKeys, Timestamp: now, UpdateAccountAuth: up, RemoveAccountDid: rm, PastSeed: fmt.Sprintf("seed%d", len(vers.VersionList))}
					op := Tx("rotate", fmt.Sprintf("rotate(%s,by=%s,remove=%s)", sd.Name, didNames[ci], maskStr(l.AccountDids, mask)), m)
					op.Meta = map[string]string{"did": sd.Did}
					out = append(out, op)
					// malformed partitions: an entry that belongs to the other DID smuggled into either list, an own entry
					// named twice, an own entry left out
					var foreign string
					if ol, ok := k.GetAccountList(ctx, other.Did); ok && len(ol.AccountDids) > 0 {
						foreign = ol.AccountDids[0]
					}
					bad := map[string]func(m *didtypes.MsgUpdate) bool{
						"foreign-removed": func(m *didtypes.MsgUpdate) bool {
							m.RemoveAccountDid = append(append([]string{}, rm...), foreign)
							return foreign != ""
						},
						"foreign-updated": func(m *didtypes.MsgUpdate) bool {
							m.UpdateAccountAuth = append(append([]*didtypes.AccountAuth{}, up...), &didtypes.AccountAuth{AccountDid: foreign, AccountEncryptedSeed: "s3", SidEncryptedAccount: "e3"})
							return foreign != ""
						},
						"own-twice": func(m *didtypes.MsgUpdate) bool {
							m.RemoveAccountDid = append(append([]string{}, rm...), l.AccountDids[0])
							return true
						},
						"own-left-out": func(m *didtypes.MsgUpdate) bool {
							if len(rm) > 0 {
								m.RemoveAccountDid = rm[1:]
							} else {
								m.UpdateAccountAuth = up[1:]
							}
							return true
						},
					}
					for _, bn := range sortedKeys(bad) {
						bm := *m
						if !bad[bn](&bm) {
							continue
						}
						bop := Tx("rotate-bad", fmt.Sprintf("rotate-bad(%s,%s,by=%s,remove=%s)", bn, sd.Name, didNames[ci], maskStr(l.AccountDids, mask)), &bm)
						bop.Meta = map[string]string{"did": sd.Did}
						out = append(out, bop)
					}
				}
			}
		}
	}
	// payment address updates: sid and key DIDs
	dids := map[string]string{"d1": sidD1.Did, "d2": sidD2.Did, "kA": w.A(world.W).Did, "kB": w.A(world.Q).Did}
	for _, dn := range sortedKeys(dids) {
		for _, ci := range didAccts {
			for _, ai := range didAccts {
				if strings.HasPrefix(dn, "k") && tier != "thorough" && ci != ai && ci != world.X {
					continue
				}
				m := &didtypes.MsgUpdatePaymentAddress{Creator: w.A(ci).S(), AccountId: w.A(ai).AccountId(), Did: dids[dn]}
				out = append(out, Tx("payaddr", fmt.Sprintf("payaddr(%s,acct=%s,by=%s)", dn, didNames[ai], didNames[ci]), m))
				if ci == ai && dn == "kA" {
					// the key DID written as a DID URL (fragment / query): still that DID, or at least never a way
					// around "never changes afterwards"
					urls := map[string]string{"fragment": dids[dn] + "#" + strings.TrimPrefix(dids[dn], "did:key:")}
					if tier == "thorough" {
						urls["query"] = dids[dn] + "?versionId=1"
					}
					for _, un := range sortedKeys(urls) {
						u := urls[un]
						mu := &didtypes.MsgUpdatePaymentAddress{Creator: w.A(ci).S(), AccountId: w.A(ai).AccountId(), Did: u}
						out = append(out, Tx("payaddr-url", fmt.Sprintf("payaddr-url(%s,%s,acct=%s)", dn, un, didNames[ai]), mu))
					}
				}
				if ci == ai {
					// the same account, spelled in upper case (valid bech32; the signer is the same account)
					up := strings.ToUpper(w.A(ci).S())
					mu := &didtypes.MsgUpdatePaymentAddress{Creator: up, AccountId: "cosmos:" + world.ChainID + ":" + up, Did: dids[dn]}
					out = append(out, Tx("payaddr-bad-spelling", fmt.Sprintf("payaddr-bad-spelling(%s,acct=%s,by=%s)", dn, didNames[ai], didNames[ci]), mu))
				}
			}
		}
	}
	out = append(out, End(ctx.BlockHeight()))
	return out
}

func maskStr(l []string, mask int) string {
	var out []string
	for i, ad := range l {
		if mask&(1<<i) != 0 {
			out = append(out, strings.TrimPrefix(ad, "did:key:acct-"))
		}
	}
	return "[" + strings.Join(out, ",") + "]"
}
