package checks

import (
	"sort"
	"strings"

	"saomc/world"

	markettypes "github.com/SaoNetwork/sao/x/market/types"
	modeltypes "github.com/SaoNetwork/sao/x/model/types"
	nodetypes "github.com/SaoNetwork/sao/x/node/types"
	ordertypes "github.com/SaoNetwork/sao/x/order/types"
	sdk "github.com/cosmos/cosmos-sdk/types"
)

// Snap is everything the oracles read from one state, read back through the keepers' own getters.
type Snap struct {
	H        int64
	Orders   map[uint64]ordertypes.Order
	Shards   map[uint64]ordertypes.Shard
	Metas    map[string]modeltypes.Metadata
	Models   map[string]string // alias key -> data id
	Pledges  map[string]nodetypes.Pledge
	Debts    map[string]sdk.Int
	Workers  map[string]markettypes.Worker // by sp address
	Nodes    map[string]nodetypes.Node
	Pool     nodetypes.Pool
	ExpShard map[uint64][]uint64 // height -> shard ids
	ExpData  map[uint64][]string
	Timeout  map[uint64][]uint64
	OrderIds []uint64
	ShardIds []uint64
	w        *world.World
	ctx      sdk.Context
}

func TakeSnap(w *world.World, ctx sdk.Context) *Snap {
	s := &Snap{H: ctx.BlockHeight(), w: w, ctx: ctx,
		Orders: map[uint64]ordertypes.Order{}, Shards: map[uint64]ordertypes.Shard{}, Metas: map[string]modeltypes.Metadata{},
		Models: map[string]string{}, Pledges: map[string]nodetypes.Pledge{}, Debts: map[string]sdk.Int{}, Workers: map[string]markettypes.Worker{},
		Nodes: map[string]nodetypes.Node{}, ExpShard: map[uint64][]uint64{}, ExpData: map[uint64][]string{}, Timeout: map[uint64][]uint64{}}
	a := w.App
	for _, o := range a.OrderKeeper.GetAllOrder(ctx) {
		s.Orders[o.Id] = o
		s.OrderIds = append(s.OrderIds, o.Id)
	}
	for _, sh := range a.OrderKeeper.GetAllShard(ctx) {
		s.Shards[sh.Id] = sh
		s.ShardIds = append(s.ShardIds, sh.Id)
	}
	sort.Slice(s.OrderIds, func(i, j int) bool { return s.OrderIds[i] < s.OrderIds[j] })
	sort.Slice(s.ShardIds, func(i, j int) bool { return s.ShardIds[i] < s.ShardIds[j] })
	for _, m := range a.ModelKeeper.GetAllMetadata(ctx) {
		s.Metas[m.DataId] = m
	}
	for _, m := range a.ModelKeeper.GetAllModel(ctx) {
		s.Models[m.Key] = m.Data
	}
	for _, p := range a.NodeKeeper.GetAllPledge(ctx) {
		s.Pledges[p.Creator] = p
	}
	for _, d := range a.NodeKeeper.GetAllPledgeDebt(ctx) {
		s.Debts[d.Sp] = d.Debt.Amount
	}
	for _, wk := range a.MarketKeeper.GetAllWorker(ctx) {
		s.Workers[strings.TrimPrefix(wk.Workername, world.Denom+"-")] = wk
	}
	for _, n := range a.NodeKeeper.GetAllNode(ctx) {
		s.Nodes[n.Creator] = n
	}
	s.Pool, _ = a.NodeKeeper.GetPool(ctx)
	for _, e := range a.SaoKeeper.GetAllExpiredShard(ctx) {
		s.ExpShard[e.Height] = e.ShardList
	}
	for _, e := range a.ModelKeeper.GetAllExpiredData(ctx) {
		s.ExpData[e.Height] = e.Data
	}
	for _, e := range a.SaoKeeper.GetAllTimeoutOrder(ctx) {
		s.Timeout[e.Height] = e.OrderList
	}
	return s
}

func (s *Snap) Bal(addr sdk.AccAddress) sdk.Int { return s.w.Bal(s.ctx, addr) }
func (s *Snap) BalS(addr string) sdk.Int        { return s.w.Bal(s.ctx, sdk.MustAccAddressFromBech32(addr)) }
func (s *Snap) ModBal(mod string) sdk.Int       { return s.w.Bal(s.ctx, world.ModAddr(mod)) }

func sortedKeys[V any](m map[string]V) []string {
	var ks []string
	for k := range m {
		ks = append(ks, k)
	}
	sort.Strings(ks)
	return ks
}

func sortedU64[V any](m map[uint64]V) []uint64 {
	var ks []uint64
	for k := range m {
		ks = append(ks, k)
	}
	sort.Slice(ks, func(i, j int) bool { return ks[i] < ks[j] })
	return ks
}

func contains(l []uint64, x uint64) bool {
	for _, v := range l {
		if v == x {
			return true
		}
	}
	return false
}

func containsS(l []string, x string) bool {
	for _, v := range l {
		if v == x {
			return true
		}
	}
	return false
}
