package checks

import (
	"fmt"
	"sort"
	"strings"

	"saomc/engine"
	"saomc/world"

	didtypes "github.com/SaoNetwork/sao/x/did/types"
	markettypes "github.com/SaoNetwork/sao/x/market/types"
	nodetypes "github.com/SaoNetwork/sao/x/node/types"
	ordertypes "github.com/SaoNetwork/sao/x/order/types"
	sdk "github.com/cosmos/cosmos-sdk/types"
)

// Ledger holds the recorded obligations of the escrow accounts in one state (DESIGN.md Appendix A.1/A.2).
type Ledger struct {
	OblMarket, OblNode   sdk.Dec
	OblOrder, OblDid     sdk.Int
	BalMarket, BalOrder  sdk.Int
	BalNode, BalDid      sdk.Int
	K                    map[string]sdk.Int // per provider: sum of collateral of its completed shards - recorded debt
	TSP                  map[string]sdk.Int // per provider: capacity pledge
	Accrued              map[string]sdk.Dec // per provider: worker reward accrued as of this height
	FutureRenew          sdk.Dec            // part of OblMarket: renewal periods not started
	PerShardFutureRenew  map[uint64]sdk.Dec
	Supply               sdk.Int
	ClaimableBlockReward map[string]sdk.Dec
}

func (l *Ledger) DeltaMarket() sdk.Dec { return sdk.NewDecFromInt(l.BalMarket).Sub(l.OblMarket) }
func (l *Ledger) DeltaOrder() sdk.Int  { return l.BalOrder.Sub(l.OblOrder) }
func (l *Ledger) DeltaNode() sdk.Dec   { return sdk.NewDecFromInt(l.BalNode).Sub(l.OblNode) }

func price(o ordertypes.Order) sdk.Dec {
	if o.UnitPrice.Amount.IsNil() {
		return sdk.ZeroDec()
	}
	return o.UnitPrice.Amount
}

func ComputeLedger(s *Snap) *Ledger {
	l := &Ledger{OblMarket: sdk.ZeroDec(), OblNode: sdk.ZeroDec(), OblOrder: sdk.ZeroInt(), OblDid: sdk.ZeroInt(),
		K: map[string]sdk.Int{}, TSP: map[string]sdk.Int{}, Accrued: map[string]sdk.Dec{}, FutureRenew: sdk.ZeroDec(),
		PerShardFutureRenew: map[uint64]sdk.Dec{}, ClaimableBlockReward: map[string]sdk.Dec{}}
	h := s.H
	for _, sp := range sortedKeys(s.Workers) {
		wk := s.Workers[sp]
		acc := wk.Reward.Amount.Add(wk.IncomePerSecond.Amount.MulInt64(h - wk.LastRewardAt))
		l.Accrued[sp] = acc
		l.OblMarket = l.OblMarket.Add(acc)
	}
	for _, oid := range s.OrderIds {
		o := s.Orders[oid]
		deposited := o.Status == ordertypes.OrderCompleted || o.Operation == 3
		if !deposited {
			l.OblOrder = l.OblOrder.Add(o.Amount.Amount)
			continue
		}
		// rounding dust of the quote stays with the order
		exact := price(o).MulInt64(int64(o.Size_)).MulInt64(int64(o.Replica)).MulInt64(int64(o.Duration))
		l.OblMarket = l.OblMarket.Add(sdk.NewDecFromInt(o.Amount.Amount).Sub(exact))
		if o.Operation != 3 {
			for _, id := range o.Shards {
				if sh, ok := s.Shards[id]; ok && sh.Status == ordertypes.ShardWaiting && sh.OrderId == o.Id {
					l.OblMarket = l.OblMarket.Add(price(o).MulInt64(int64(sh.Size_)).MulInt64(int64(o.Duration)))
				}
			}
		}
	}
	for _, sid := range s.ShardIds {
		sh := s.Shards[sid]
		if sh.Status != ordertypes.ShardCompleted {
			continue
		}
		if o, ok := s.Orders[sh.OrderId]; ok {
			l.OblMarket = l.OblMarket.Add(price(o).MulInt64(int64(sh.Size_)).MulInt64(int64(sh.CreatedAt+sh.Duration) - h))
		}
		fr := sdk.ZeroDec()
		for _, r := range sh.RenewInfos {
			if o, ok := s.Orders[r.OrderId]; ok {
				fr = fr.Add(price(o).MulInt64(int64(sh.Size_)).MulInt64(int64(r.Duration)))
			}
		}
		l.PerShardFutureRenew[sh.Id] = fr
		l.FutureRenew = l.FutureRenew.Add(fr)
		l.OblMarket = l.OblMarket.Add(fr)
		if _, ok := l.K[sh.Sp]; !ok {
			l.K[sh.Sp] = sdk.ZeroInt()
		}
		if !sh.Pledge.Amount.IsNil() {
			l.K[sh.Sp] = l.K[sh.Sp].Add(sh.Pledge.Amount)
		}
	}
	for _, sp := range sortedKeys(s.Pledges) {
		p := s.Pledges[sp]
		l.TSP[sp] = p.TotalStoragePledged.Amount
		l.OblNode = l.OblNode.Add(sdk.NewDecFromInt(p.TotalStoragePledged.Amount.Add(p.TotalShardPledged.Amount)))
		claimable := p.Reward.Amount
		if p.TotalStorage > 0 && !s.Pool.AccRewardPerByte.Amount.IsNil() {
			claimable = claimable.Add(s.Pool.AccRewardPerByte.Amount.MulInt64(p.TotalStorage).Sub(p.RewardDebt.Amount))
		}
		l.ClaimableBlockReward[sp] = claimable
		l.OblNode = l.OblNode.Add(sdk.NewDecFromInt(claimable.TruncateInt()))
		if _, ok := l.K[sp]; !ok {
			l.K[sp] = sdk.ZeroInt()
		}
	}
	for _, sp := range sortedKeys(s.Debts) {
		l.OblNode = l.OblNode.Sub(sdk.NewDecFromInt(s.Debts[sp]))
		if _, ok := l.K[sp]; !ok {
			l.K[sp] = sdk.ZeroInt()
		}
		l.K[sp] = l.K[sp].Sub(s.Debts[sp])
	}
	for _, b := range s.w.App.DidKeeper.GetAllDidBalances(s.ctx) {
		l.OblDid = l.OblDid.Add(b.Balance.Amount)
	}
	l.BalMarket = s.ModBal(markettypes.ModuleName)
	l.BalOrder = s.ModBal(ordertypes.ModuleName)
	l.BalNode = s.ModBal(nodetypes.ModuleName)
	l.BalDid = s.ModBal(didtypes.ModuleName)
	l.Supply = s.w.App.BankKeeper.GetSupply(s.ctx, world.Denom).Amount
	return l
}

// memo helpers ---------------------------------------------------------------------------------

func snapOf(w *world.World, ctx sdk.Context, s *engine.State) *Snap {
	if s.Memo == nil {
		s.Memo = map[string]interface{}{}
	}
	if v, ok := s.Memo["snap"]; ok {
		return v.(*Snap)
	}
	sn := TakeSnap(w, ctx)
	s.Memo["snap"] = sn
	return sn
}

func ledgerOf(w *world.World, ctx sdk.Context, s *engine.State) *Ledger {
	sn := snapOf(w, ctx, s)
	if v, ok := s.Memo["ledger"]; ok {
		return v.(*Ledger)
	}
	l := ComputeLedger(sn)
	s.Memo["ledger"] = l
	return l
}

// ---------------------------------------------------------------------------------------------
// state clauses

func C06State(l *Ledger) []engine.Finding {
	var out []engine.Finding
	if l.DeltaOrder().IsNegative() {
		out = append(out, fd("C06", "order-escrow-short", "", fmt.Sprintf("order module holds %s, orders not yet deposited sum to %s", l.BalOrder, l.OblOrder)))
	}
	if l.DeltaMarket().IsNegative() {
		out = append(out, fd("C06", "market-escrow-short", "", fmt.Sprintf("market module holds %s, recorded obligations %s", l.BalMarket, l.OblMarket)))
	}
	if l.DeltaNode().IsNegative() {
		out = append(out, fd("C06", "node-escrow-short", "", fmt.Sprintf("node module holds %s, pledges - debt + claimable rewards = %s", l.BalNode, l.OblNode)))
	}
	if l.BalDid.LT(l.OblDid) {
		out = append(out, fd("C06", "did-escrow-short", "", fmt.Sprintf("did module holds %s, DidBalances sum to %s", l.BalDid, l.OblDid)))
	}
	return out
}

func C04State(l *Ledger, g *lifeGhost) []engine.Finding {
	var out []engine.Finding
	if !l.DeltaOrder().IsZero() {
		out = append(out, fd("C04", "order-escrow-mismatch", cmp(l.DeltaOrder().IsPositive()), fmt.Sprintf("order module holds %s, orders not yet deposited sum to %s", l.BalOrder, l.OblOrder)))
	}
	// income reference: claimed + accrued == integral of bytes x blocks stored
	sps := map[string]bool{}
	for sp := range l.Accrued {
		sps[sp] = true
	}
	for sp := range g.Income {
		sps[sp] = true
	}
	for _, sp := range sortedKeys(sps) {
		acc, ok := l.Accrued[sp]
		if !ok {
			acc = sdk.ZeroDec()
		}
		claimed, ok := g.Claimed[sp]
		if !ok {
			claimed = sdk.ZeroInt()
		}
		ref, ok := g.Income[sp]
		if !ok {
			ref = sdk.ZeroDec()
		}
		got := acc.Add(sdk.NewDecFromInt(claimed))
		if !got.Equal(ref) {
			out = append(out, fd("C04", "income-vs-bytes-blocks", cmp(got.GT(ref)), fmt.Sprintf("provider %s: claimed %s + accrued %s = %s, reference integral of price x bytes x blocks = %s", sp, claimed, acc, got, ref)))
		}
	}
	return out
}

func C07State(s *Snap) []engine.Finding {
	var out []engine.Finding
	for _, sp := range sortedKeys(s.Pledges) {
		p := s.Pledges[sp]
		if p.UsedStorage < 0 || p.UsedStorage > p.TotalStorage {
			out = append(out, fd("C07", "used-capacity-range", cmp(p.UsedStorage > p.TotalStorage), fmt.Sprintf("%s used %d of %d", s.w.NameOf(sp), p.UsedStorage, p.TotalStorage)))
		}
	}
	return out
}

// C07Withdrawable probes "pledged funds return to the pledger, in full" for the capacity pledge: a provider none of
// whose capacity backs a shard must be able to withdraw all of it, and that withdrawal must return its whole capacity
// pledge. The probe runs the real RemoveVstorage handler for exactly the recorded capacity on a branch of the state.
func C07Withdrawable(w *world.World, ctx sdk.Context, s *Snap) []engine.Finding {
	var out []engine.Finding
	for _, sp := range sortedKeys(s.Pledges) {
		p := s.Pledges[sp]
		if p.UsedStorage != 0 || p.TotalStorage <= 0 || !p.TotalStoragePledged.Amount.IsPositive() {
			continue
		}
		if _, isNode := s.Nodes[sp]; !isNode {
			continue
		}
		msg := &nodetypes.MsgRemoveVstorage{Creator: sp, Size_: uint64(p.TotalStorage)}
		cctx, _ := ctx.CacheContext()
		cctx = cctx.WithGasMeter(sdk.NewGasMeter(20_000_000)).WithEventManager(sdk.NewEventManager())
		var err error
		func() {
			defer func() {
				if r := recover(); r != nil {
					err = fmt.Errorf("panic: %v", r)
				}
			}()
			_, err = w.App.MsgServiceRouter().Handler(msg)(cctx, msg)
		}()
		if err != nil {
			out = append(out, fd("C07", "idle-capacity-not-withdrawable", "rejected", fmt.Sprintf("%s holds %d bytes of capacity, none of it used, pledge %s: withdrawing all of it is refused: %v", s.w.NameOf(sp), p.TotalStorage, p.TotalStoragePledged.Amount, err)))
			continue
		}
		if q, ok := w.App.NodeKeeper.GetPledge(cctx, sp); ok && q.TotalStoragePledged.Amount.IsPositive() {
			out = append(out, fd("C07", "idle-capacity-not-withdrawable", "pledge-stranded", fmt.Sprintf("%s holds %d bytes of capacity, none of it used, pledge %s: after withdrawing all of it %s stays pledged with %d bytes left", s.w.NameOf(sp), p.TotalStorage, p.TotalStoragePledged.Amount, q.TotalStoragePledged.Amount, q.TotalStorage)))
		}
	}
	return out
}

// ---------------------------------------------------------------------------------------------
// step clauses

func isModule(addr string) string {
	for _, m := range []string{markettypes.ModuleName, ordertypes.ModuleName, nodetypes.ModuleName, didtypes.ModuleName} {
		if world.ModAddr(m).String() == addr {
			return m
		}
	}
	return ""
}

// quote is the reference price of an order: unit price x size x replicas x duration, rounded up.
func quote(o ordertypes.Order) sdk.Int {
	d := sdk.NewDecWithPrec(1, 6).MulInt64(int64(o.Size_)).MulInt64(int64(o.Replica)).MulInt64(int64(o.Duration))
	return d.Ceil().TruncateInt()
}

func payerOf(w *world.World, ctx sdk.Context, o ordertypes.Order) string {
	did := o.Owner
	if o.PaymentDid != "" {
		did = o.PaymentDid
	}
	a, err := w.App.DidKeeper.GetCosmosPaymentAddress(ctx, did)
	if err != nil {
		return ""
	}
	return a.String()
}

func C04Step(si *engine.StepInfo, pre, post *Snap, lp, lq *Ledger) []engine.Finding {
	var out []engine.Finding
	w := si.W
	flows := si.Res.Flows
	// 1. new orders are charged exactly once, exactly the quote, to the payer
	expected := map[string]sdk.Int{} // payer|module -> amount
	for _, oid := range post.OrderIds {
		if _, old := pre.Orders[oid]; old {
			continue
		}
		o := post.Orders[oid]
		q := quote(o)
		if !o.Amount.Amount.Equal(q) {
			out = append(out, fd("C04", "charge-not-quote", "", fmt.Sprintf("order %d records amount %s, quote for size %d x replica %d x duration %d is %s", o.Id, o.Amount.Amount, o.Size_, o.Replica, o.Duration, q)))
		}
		mod := ordertypes.ModuleName
		if o.Operation == 3 {
			mod = markettypes.ModuleName
		}
		k := payerOf(w, si.PostCtx, o) + "|" + world.ModAddr(mod).String()
		if v, ok := expected[k]; ok {
			expected[k] = v.Add(q)
		} else {
			expected[k] = q
		}
	}
	paid := map[string]sdk.Int{}
	for _, f := range flows {
		if isModule(f.From) == "" && (isModule(f.To) == ordertypes.ModuleName || isModule(f.To) == markettypes.ModuleName) {
			k := f.From + "|" + f.To
			if v, ok := paid[k]; ok {
				paid[k] = v.Add(f.Amt)
			} else {
				paid[k] = f.Amt
			}
		}
	}
	keys := map[string]bool{}
	for k := range expected {
		keys[k] = true
	}
	for k := range paid {
		keys[k] = true
	}
	for _, k := range sortedKeys(keys) {
		e, ok1 := expected[k]
		p, ok2 := paid[k]
		if !ok1 {
			e = sdk.ZeroInt()
		}
		if !ok2 {
			p = sdk.ZeroInt()
		}
		if !e.Equal(p) {
			out = append(out, fd("C04", "charge-mismatch", cmp(p.GT(e)), fmt.Sprintf("payer|escrow %s paid %s, quotes of the orders created in this step sum to %s", k, p, e)))
		}
	}
	// 2. money leaves the order/market escrows only to a claiming provider or to the client side
	clients := map[string]bool{}
	for _, o := range pre.Orders {
		if a := payerOf(w, si.PreCtx, o); a != "" {
			clients[a] = true
		}
		if a, err := w.App.DidKeeper.GetCosmosPaymentAddress(si.PreCtx, o.Owner); err == nil {
			clients[a.String()] = true
		}
	}
	for _, f := range flows {
		m := isModule(f.From)
		if (m != ordertypes.ModuleName && m != markettypes.ModuleName) || isModule(f.To) != "" || f.Amt.IsZero() {
			continue
		}
		if si.Op.Kind == "claim" {
			if f.To != si.Op.Msg.GetSigners()[0].String() {
				out = append(out, fd("C04", "payout-to-other-than-claimer", "", fmt.Sprintf("%s paid %s to %s during a claim by %s", m, f.Amt, w.NameOf(f.To), w.NameOf(si.Op.Msg.GetSigners()[0].String()))))
			}
			continue
		}
		if !clients[f.To] {
			out = append(out, fd("C04", "payout-to-non-client", "", fmt.Sprintf("%s escrow paid %s to %s, which is neither payer nor owner payment address of any order", m, f.Amt, w.NameOf(f.To))))
		}
	}
	// 3. market discrepancy moves only by rounding dust
	d := lq.DeltaMarket().Sub(lp.DeltaMarket())
	settled := int64(0)
	for _, oid := range pre.OrderIds {
		po := pre.Orders[oid]
		qo, still := post.Orders[oid]
		if !still || !qo.Amount.Amount.Equal(po.Amount.Amount) {
			settled++
		}
	}
	if d.IsNegative() {
		out = append(out, fd("C04", "market-overpaid", "", fmt.Sprintf("market escrow minus recorded obligations fell by %s in this step (someone was credited or paid more than the orders hold)", d.Neg())))
	} else if d.GTE(sdk.NewDec(1)) && d.GTE(sdk.NewDec(settled)) {
		// what the step deleted
		lost := sdk.ZeroDec()
		for _, sid := range pre.ShardIds {
			if _, ok := post.Shards[sid]; !ok {
				if v, ok := lp.PerShardFutureRenew[sid]; ok {
					lost = lost.Add(v)
				}
			}
		}
		disc := "other"
		if lost.IsPositive() && d.Sub(lost).Abs().LT(sdk.NewDec(settled+1)) {
			disc = "equals-unstarted-renewals-of-removed-shards"
		}
		out = append(out, fd("C04", "market-leak", disc, fmt.Sprintf("market escrow minus recorded obligations grew by %s with %d order settlement(s) in the step; unstarted renewal periods of removed shards = %s", d, settled, lost)))
	}
	return out
}

func C06Step(si *engine.StepInfo) []engine.Finding {
	var out []engine.Finding
	if si.Res.OK || si.Op.Msg == nil {
		return nil
	}
	switch si.Op.Kind {
	// operations whose only bank transfers are paid by module accounts (a provider's own pledge payment in
	// "complete" can fail for the provider's lack of funds, which is not an escrow failure)
	case "terminate", "claim", "cancel", "removev":
		if strings.Contains(si.Res.Err, "insufficient funds") && payerIsModule(si.Res.Err) {
			out = append(out, fd("C06", "payout-failed", "insufficient-escrow", si.Res.Err))
		}
		if si.Res.Panic && strings.Contains(si.Res.Err, "module account") {
			out = append(out, fd("C06", "payout-failed", "module-account-missing", si.Res.Err))
		}
	}
	return out
}

func payerIsModule(err string) bool {
	// bank error text: "spendable balance X is smaller than Y: insufficient funds"; the handlers wrap
	// module sends without naming the account, so the op kinds above (all paid by modules) decide.
	return true
}

func C07Step(si *engine.StepInfo, pre, post *Snap, lp, lq *Ledger) []engine.Finding {
	var out []engine.Finding
	w := si.W
	node := world.ModAddr(nodetypes.ModuleName).String()
	in, outf := map[string]sdk.Int{}, map[string]sdk.Int{}
	add := func(m map[string]sdk.Int, k string, v sdk.Int) {
		if o, ok := m[k]; ok {
			m[k] = o.Add(v)
		} else {
			m[k] = v
		}
	}
	for _, f := range si.Res.Flows {
		if f.To == node && f.From != "" && isModule(f.From) == "" {
			add(in, f.From, f.Amt)
		}
		if f.From == node && isModule(f.To) == "" && f.To != "" {
			add(outf, f.To, f.Amt)
			if _, ok := pre.Pledges[f.To]; !ok {
				if _, ok2 := post.Pledges[f.To]; !ok2 {
					out = append(out, fd("C07", "node-escrow-paid-non-provider", "", fmt.Sprintf("node escrow paid %s to %s, which has no pledge record", f.Amt, w.NameOf(f.To))))
				}
			}
		}
	}
	if si.Op.Kind == "claim" {
		return out // reward claims are C08's
	}
	sps := map[string]bool{}
	for sp := range lp.K {
		sps[sp] = true
	}
	for sp := range lq.K {
		sps[sp] = true
	}
	for sp := range in {
		sps[sp] = true
	}
	for sp := range outf {
		sps[sp] = true
	}
	z := sdk.ZeroInt()
	get := func(m map[string]sdk.Int, k string) sdk.Int {
		if v, ok := m[k]; ok {
			return v
		}
		return z
	}
	for _, sp := range sortedKeys(sps) {
		net := get(in, sp).Sub(get(outf, sp))
		dk := get(lq.K, sp).Sub(get(lp.K, sp))
		dt := get(lq.TSP, sp).Sub(get(lp.TSP, sp))
		if !net.Equal(dk.Add(dt)) {
			disc := "provider-underpaid"
			if net.LT(dk.Add(dt)) {
				disc = "escrow-underfunded"
			}
			out = append(out, fd("C07", "collateral-flow-mismatch", disc, fmt.Sprintf("%s: coins provider->escrow minus escrow->provider = %s, but recorded collateral net of debt changed by %s and capacity pledge by %s", w.NameOf(sp), net, dk, dt)))
		}
	}
	return out
}

// refIncomeAdvance adds price x bytes x blocks for every completed shard over the block advance h -> h2
// (h2 = new height in progress); a shard earns until the end of its current period plus queued renewals.
func refIncomeAdvance(pre *Snap, g *lifeGhost, h, h2 int64) {
	for _, sid := range pre.ShardIds {
		sh := pre.Shards[sid]
		if sh.Status != ordertypes.ShardCompleted {
			continue
		}
		o, ok := pre.Orders[sh.OrderId]
		if !ok {
			continue
		}
		end := int64(sh.CreatedAt + sh.Duration)
		for _, r := range sh.RenewInfos {
			end += int64(r.Duration)
		}
		until := h2
		if end < until {
			until = end
		}
		if until > h {
			inc := price(o).MulInt64(int64(sh.Size_)).MulInt64(until - h)
			if v, ok := g.Income[sh.Sp]; ok {
				g.Income[sh.Sp] = v.Add(inc)
			} else {
				g.Income[sh.Sp] = inc
			}
		}
	}
}

func ghostBytesDec(m map[string]sdk.Dec) string {
	ks := make([]string, 0, len(m))
	for k := range m {
		ks = append(ks, k)
	}
	sort.Strings(ks)
	var b strings.Builder
	for _, k := range ks {
		b.WriteString(k + "=" + m[k].String() + ";")
	}
	return b.String()
}

func ghostBytesInt(m map[string]sdk.Int) string {
	ks := make([]string, 0, len(m))
	for k := range m {
		ks = append(ks, k)
	}
	sort.Strings(ks)
	var b strings.Builder
	for _, k := range ks {
		b.WriteString(k + "=" + m[k].String() + ";")
	}
	return b.String()
}
