// Package checks holds the scenarios (alphabets, roots, bounds) and oracles of the 20 properties.
package checks

import (
	"fmt"
	"sort"

	"saomc/engine"
	"saomc/world"

	didtypes "github.com/SaoNetwork/sao/x/did/types"
	nodetypes "github.com/SaoNetwork/sao/x/node/types"
	ordertypes "github.com/SaoNetwork/sao/x/order/types"
	saotypes "github.com/SaoNetwork/sao/x/sao/types"
	"github.com/cosmos/cosmos-sdk/store/prefix"
	sdk "github.com/cosmos/cosmos-sdk/types"
	banktypes "github.com/cosmos/cosmos-sdk/x/bank/types"
)

const FullStatus = nodetypes.NODE_STATUS_ONLINE | nodetypes.NODE_STATUS_SERVE_GATEWAY | nodetypes.NODE_STATUS_SERVE_STORAGE | nodetypes.NODE_STATUS_ACCEPT_ORDER
const GatewayStatus = nodetypes.NODE_STATUS_ONLINE | nodetypes.NODE_STATUS_SERVE_GATEWAY

type StoreP struct {
	Signer    int // actor whose did:key signs (proposal.Owner = its DID unless OwnerDid set)
	OwnerDid  string
	Relayer   int // tx signer (msg.Creator)
	Gateway   int // proposal.Provider and msg.Provider
	DataId    string
	CommitId  string
	Alias     string
	Size      uint64
	Replica   int32
	Duration  uint64
	Timeout   int32
	Operation uint32
	PayDid    string
	Cid       string
	NoAlias   bool // the proposal carries an empty alias (an unnamed model)
	RwDids    []string
	RoDids    []string
}

func StoreMsg(w *world.World, p StoreP) *saotypes.MsgStore {
	owner := p.OwnerDid
	if owner == "" {
		owner = w.A(p.Signer).Did
	}
	if p.Cid == "" {
		p.Cid = world.Cid
	}
	if p.Alias == "" && !p.NoAlias {
		p.Alias = "alias-" + p.DataId[:2]
	}
	if p.Operation == 0 {
		p.Operation = 1
	}
	prop := saotypes.Proposal{Owner: owner, Provider: w.A(p.Gateway).S(), GroupId: "g", Duration: p.Duration, Replica: p.Replica, Timeout: p.Timeout,
		Alias: p.Alias, DataId: p.DataId, CommitId: p.CommitId, Cid: p.Cid, Size_: p.Size, Operation: p.Operation, PaymentDid: p.PayDid,
		ReadwriteDids: p.RwDids, ReadonlyDids: p.RoDids}
	return &saotypes.MsgStore{Creator: w.A(p.Relayer).S(), Provider: w.A(p.Gateway).S(), Proposal: prop, JwsSignature: world.Sign(w.A(p.Signer).Prov, &prop)}
}

func TerminateMsg(w *world.World, signer, relayer, gateway int, dataId string) *saotypes.MsgTerminate {
	tp := saotypes.TerminateProposal{Owner: w.A(signer).Did, DataId: dataId}
	return &saotypes.MsgTerminate{Creator: w.A(relayer).S(), Provider: w.A(gateway).S(), Proposal: tp, JwsSignature: world.Sign(w.A(signer).Prov, &tp)}
}

func RenewMsg(w *world.World, signer, relayer, gateway int, dur uint64, timeout int32, data ...string) *saotypes.MsgRenew {
	rp := saotypes.RenewProposal{Owner: w.A(signer).Did, Duration: dur, Timeout: timeout, Data: data}
	return &saotypes.MsgRenew{Creator: w.A(relayer).S(), Provider: w.A(gateway).S(), Proposal: rp, JwsSignature: world.Sign(w.A(signer).Prov, &rp)}
}

func PermissionMsg(w *world.World, signer, relayer, gateway int, dataId string, ro, rw []string) *saotypes.MsgUpdataPermission {
	pp := saotypes.PermissionProposal{Owner: w.A(signer).Did, DataId: dataId, ReadonlyDids: ro, ReadwriteDids: rw}
	return &saotypes.MsgUpdataPermission{Creator: w.A(relayer).S(), Provider: w.A(gateway).S(), Proposal: pp, JwsSignature: world.Sign(w.A(signer).Prov, &pp)}
}

func Tx(kind, label string, m sdk.Msg) engine.Op { return engine.Op{Label: label, Kind: kind, Msg: m} }

func End(to int64) engine.Op {
	return engine.Op{Label: fmt.Sprintf("end@%d", to), Kind: "end", EndTo: to}
}

// fixed returns a setup step that does not depend on the state.
func fixed(op engine.Op) engine.SetupStep {
	return func(*world.World, sdk.Context) engine.Op { return op }
}

// SetupNodes: payment address for the owner-like actors, gateway(s), storage nodes with capacity.
func SetupBase(w *world.World, owners []int, gateways []int, sps []int, capacity uint64) []engine.SetupStep {
	var st []engine.SetupStep
	for _, o := range owners {
		a := w.A(o)
		st = append(st, fixed(Tx("payaddr", "payaddr("+a.Name+")", &didtypes.MsgUpdatePaymentAddress{Creator: a.S(), AccountId: a.AccountId(), Did: a.Did})))
	}
	for _, g := range gateways {
		a := w.A(g)
		st = append(st, fixed(Tx("create", "create("+a.Name+")", &nodetypes.MsgCreate{Creator: a.S()})),
			fixed(Tx("reset", "reset("+a.Name+",gw)", &nodetypes.MsgReset{Creator: a.S(), Status: GatewayStatus})))
	}
	for _, s := range sps {
		a := w.A(s)
		st = append(st, fixed(Tx("create", "create("+a.Name+")", &nodetypes.MsgCreate{Creator: a.S()})),
			fixed(Tx("reset", "reset("+a.Name+",full)", &nodetypes.MsgReset{Creator: a.S(), Status: FullStatus})),
			fixed(Tx("addv", fmt.Sprintf("addv(%s,%d)", a.Name, capacity), &nodetypes.MsgAddVstorage{Creator: a.S(), Size_: capacity})))
	}
	return st
}

// CompleteAll is a setup step completing the k-th waiting/migrating shard (in id order) of the given order.
func CompleteNth(orderId uint64, k int) engine.SetupStep {
	return func(w *world.World, ctx sdk.Context) engine.Op {
		o, ok := w.App.OrderKeeper.GetOrder(ctx, orderId)
		if !ok {
			panic("HARNESS: CompleteNth: no order")
		}
		n := 0
		for _, sid := range o.Shards {
			sh, ok := w.App.OrderKeeper.GetShard(ctx, sid)
			if ok && (sh.Status == ordertypes.ShardWaiting || sh.Status == ordertypes.ShardMigrating) {
				if n == k {
					return CompleteOp(w, o.Id, sh)
				}
				n++
			}
		}
		panic("HARNESS: CompleteNth: no open shard")
	}
}

func CompleteOp(w *world.World, orderId uint64, sh ordertypes.Shard) engine.Op {
	return Tx("complete", fmt.Sprintf("complete(o%d,s%d,%s)", orderId, sh.Id, w.NameOf(sh.Sp)),
		&saotypes.MsgComplete{Creator: sh.Sp, Provider: sh.Sp, OrderId: orderId, Cid: sh.Cid, Size_: sh.Size_})
}

func SendOp(w *world.World, from, to int, amt sdk.Int, label string) engine.Op {
	return Tx("send", label, &banktypes.MsgSend{FromAddress: w.A(from).S(), ToAddress: w.A(to).S(), Amount: sdk.NewCoins(sdk.NewCoin(world.Denom, amt))})
}

// Interesting returns the heights > = h at which an end-blocker (or offline detection) does something,
// sorted ascending.
func Interesting(w *world.World, ctx sdk.Context) []int64 {
	h := ctx.BlockHeight()
	set := map[int64]bool{}
	add := func(x uint64) {
		if int64(x) >= h {
			set[int64(x)] = true
		}
	}
	for _, t := range w.App.SaoKeeper.GetAllTimeoutOrder(ctx) {
		add(t.Height)
	}
	for _, t := range w.App.SaoKeeper.GetAllExpiredShard(ctx) {
		add(t.Height)
	}
	for _, t := range w.App.ModelKeeper.GetAllExpiredData(ctx) {
		add(t.Height)
	}
	if len(AllFaults(w, ctx)) > 0 {
		add(uint64((h + 599) / 600 * 600))
	}
	off := w.App.NodeKeeper.OfflineTriggerHeight(ctx)
	for _, n := range w.App.NodeKeeper.GetAllNode(ctx) {
		if off < 100_000_000 && n.Status&nodetypes.NODE_STATUS_ONLINE != 0 {
			t := n.LastAliveHeight + off + 1
			if t >= h {
				set[t] = true
			} else {
				set[h] = true
			}
		}
	}
	var out []int64
	for k := range set {
		out = append(out, k)
	}
	sort.Slice(out, func(i, j int) bool { return out[i] < out[j] })
	return out
}

// AdvanceOps offers block advances: the next block, and for the nearest interesting height n > h the
// targets n-1 (block n in progress), n (past it) and optionally the midpoint.
func AdvanceOps(w *world.World, ctx sdk.Context, mid bool, maxHeight int64) []engine.Op {
	h := ctx.BlockHeight()
	targets := []int64{h}
	for _, n := range Interesting(w, ctx) {
		if n == h {
			break // the end-blocker of the block in progress has work to do: it cannot be jumped over
		}
		if n > h {
			if mid && n-h >= 4 {
				targets = append(targets, h+(n-h)/2)
			}
			targets = append(targets, n-1, n)
			break
		}
	}
	seen := map[int64]bool{}
	var out []engine.Op
	for _, t := range targets {
		if !seen[t] && (maxHeight == 0 || t <= maxHeight) {
			seen[t] = true
			out = append(out, End(t))
		}
	}
	return out
}

// AllFaults reads every fault record (by-id index) straight from the node store.
func AllFaults(w *world.World, ctx sdk.Context) []nodetypes.Fault {
	st := prefix.NewStore(ctx.KVStore(w.KeyOf("node")), nodetypes.KeyPrefix(nodetypes.FaultIdKeyPrefix))
	it := st.Iterator(nil, nil)
	defer it.Close()
	var out []nodetypes.Fault
	for ; it.Valid(); it.Next() {
		var f nodetypes.Fault
		if err := f.Unmarshal(it.Value()); err == nil {
			out = append(out, f)
		}
	}
	return out
}
