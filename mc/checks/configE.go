package checks

import (
	"fmt"
	"sort"

	"saomc/engine"
	"saomc/replica"
	"saomc/world"

	nodetypes "github.com/SaoNetwork/sao/x/node/types"
	sdk "github.com/cosmos/cosmos-sdk/types"
	"github.com/ignite/cli/ignite/pkg/cosmoscmd"

	"github.com/SaoNetwork/sao/app"
)

// ConfigExtra (C02): every node-parameter set of the grid that passes Params.Validate() with a coherent
// denomination must let InitChain, the first block, a short pledge/store/complete/remove script and the
// following blocks run through the real ABCI pipeline without a panic.
func ConfigExtra(tier string, shard, of int) ExtraResult {
	res := ExtraResult{Notes: map[string]interface{}{}, Exhaustive: true}
	world.SetPrefixes()
	enc := cosmoscmd.MakeEncodingConfig(app.ModuleBasics)
	actors := world.MakeActors()
	findings := map[string]engine.Finding{}
	rewards := []int64{0, 1, 1_000_000, 400_000_000_000_000}
	baselines := []int64{0, 1, 1_000_000_000_000_000_000}
	apys := []string{"0", "0.5", "-0.5", "1000000"}
	periods := []int64{11, 2000}
	offline := []int64{1, 1800}
	idx, valid, skipped := 0, 0, 0
	outcomes := map[string]bool{}
	for _, br := range rewards {
		for _, bl := range baselines {
			for _, apy := range apys {
				for _, hp := range periods {
					for _, ap := range periods {
						for _, off := range offline {
							idx++
							if idx%of != shard {
								continue
							}
							cfg := world.Config{BlockReward: br, Baseline: bl, BaselineZero: bl == 0, APY: apy, HalvingPeriod: hp, AdjustmentPeriod: ap, OfflineTrigger: off}
							label := fmt.Sprintf("config(reward=%d,baseline=%d,apy=%s,halving=%d,adjust=%d,offline=%d)", br, bl, apy, hp, ap, off)
							gs, _ := world.Genesis(enc, actors, cfg)
							var ng nodetypes.GenesisState
							enc.Marshaler.MustUnmarshalJSON(gs[nodetypes.ModuleName], &ng)
							if err := ng.Validate(); err != nil {
								skipped++
								continue
							}
							valid++
							engine.Enter(label)
							var perr interface{}
							h := int64(0)
							func() {
								defer func() { perr = recover() }()
								sc := &replica.Script{Name: "cfg", Cfg: cfg, Blocks: ScriptTies().Blocks[:3]}
								sc.Blocks = append(sc.Blocks, replica.Block{Txs: []replica.TxSpec{
									fx("removev(S4)", func(w *world.World) sdk.Msg {
										return &nodetypes.MsgRemoveVstorage{Creator: w.A(world.S4).S(), Size_: 1_000_000}
									}),
									fx("claim(S1)", func(w *world.World) sdk.Msg { return &nodetypes.MsgClaimReward{Creator: w.A(world.S1).S()} }),
								}, SkipTo: 14})
								w, hh := replica.RunBlocks(sc, len(sc.Blocks))
								h = hh
								w.Close()
							}()
							engine.Leave()
							if perr != nil {
								msg := fmt.Sprint(perr)
								cls := "apy=" + apy
								f := fd("C02", "halt-under-valid-parameters", cls+":"+engineNorm(msg), label+": "+msg)
								f.Op = "config"
								f.Trace = []string{label}
								if _, ok := findings[f.Sig()]; !ok {
									findings[f.Sig()] = f
								}
								outcomes["panic:"+cls] = true
							} else {
								outcomes[fmt.Sprintf("ok:reward=%d,bl=%d", br, bl)] = true
							}
							_ = h
							if len(res.Samples) < 2 {
								res.Samples = append(res.Samples, label)
							}
						}
					}
				}
			}
		}
	}
	var sigs []string
	for s := range findings {
		sigs = append(sigs, s)
	}
	sort.Strings(sigs)
	for _, s := range sigs {
		res.Findings = append(res.Findings, findings[s])
	}
	res.Evaluations = valid
	res.Distinct = len(outcomes)
	res.Notes["parameter_sets_run"] = valid
	res.Notes["parameter_sets_rejected_by_validate"] = skipped
	return res
}
