package checks

import (
	"encoding/json"
	"fmt"
	"math/big"
	"regexp"
	"strconv"
	"strings"

	"saomc/engine"
	"saomc/replica"
	"saomc/world"
)

// ReplayExtra re-executes a finding of an enumeration leg (engine R deviation, RandomIndex call).
func ReplayExtra(check string, f engine.Finding) (string, bool) {
	if len(f.Trace) == 2 && (check == "C01" || check == "C03") {
		var sc *replica.Script
		for _, s := range []*replica.Script{ScriptStorage(false), ScriptStaking(), ScriptTies(), ScriptStorage(true)} {
			if s.Name == f.Trace[0] {
				sc = s
			}
		}
		if sc == nil {
			return "", false
		}
		// deviations are printed as [kind@pos(arg) ...]
		re := regexp.MustCompile(`([a-z]+)@(\d+)\((-?\d+)\)`)
		var dv []replica.Deviation
		for _, m := range re.FindAllStringSubmatch(f.Trace[1], -1) {
			p, _ := strconv.Atoi(m[2])
			a, _ := strconv.ParseInt(m[3], 10, 64)
			dv = append(dv, replica.Deviation{Kind: m[1], Pos: p, Arg: a})
		}
		a, _, _, _ := replica.Run(sc, nil)
		b, _, _, _ := replica.Run(sc, dv)
		d := replica.Diff(a, b)
		bz, _ := json.Marshal(dv)
		if d == "" {
			return fmt.Sprintf("script %s deviations %s: transcripts identical\nNOT REPRODUCED %s", sc.Name, bz, f.Sig()), true
		}
		return fmt.Sprintf("script %s deviations %s (std overlay active: %v)\nfirst difference: %s\nREPRODUCED %s", sc.Name, bz, replica.OverlayActive, d, f.Sig()), true
	}
	if len(f.Trace) == 1 && strings.HasPrefix(f.Trace[0], "RandomIndex(") {
		re := regexp.MustCompile(`seed=(\d+),total=(\d+),count=(\d+)`)
		m := re.FindStringSubmatch(f.Trace[0])
		if m == nil {
			return "", false
		}
		seed, _ := new(big.Int).SetString(m[1], 10)
		total, _ := strconv.Atoi(m[2])
		count, _ := strconv.Atoi(m[3])
		w := world.New(world.Config{})
		defer w.Close()
		engine.StartGuard("", check)
		engine.Enter(f.Trace[0])
		idx := w.App.NodeKeeper.RandomIndex(seed, total, count)
		engine.Leave()
		return fmt.Sprintf("%s = %v (returned)\nNOT REPRODUCED %s", f.Trace[0], idx, f.Sig()), true
	}
	return "", false
}
