package checks

import (
	"fmt"

	"saomc/engine"
	"saomc/world"

	modeltypes "github.com/SaoNetwork/sao/x/model/types"
	nodetypes "github.com/SaoNetwork/sao/x/node/types"
	ordertypes "github.com/SaoNetwork/sao/x/order/types"
	saotypes "github.com/SaoNetwork/sao/x/sao/types"
	sdk "github.com/cosmos/cosmos-sdk/types"
)

// LifeOpts parameterises the lifecycle alphabet.
type LifeOpts struct {
	ID        string
	Cfg       world.Config
	Depth     int
	SPs       []int
	Capacity  uint64
	DataIds   []string
	Sizes     []uint64
	Replicas  []int32
	Durations []uint64
	Timeouts  []int32
	RenewDur  []uint64
	Update    bool // offer content updates on existing models
	ForcePush bool
	Migrate   bool
	Claim     bool
	Cancel    bool
	Terminate bool
	Renew     bool
	Pending   bool  // offer stores relayed by the owner's own account (order stays pending) + Ready
	Sponsor   bool  // offer sponsored stores (payer P)
	RemoveCap bool  // offer RemoveVstorage / AddVstorage
	Drain     bool  // offer "provider sends away all funds" (debt creation)
	Mid       bool  // offer midpoint jumps
	MaxHeight int64 // do not advance beyond
	Roots     []string
	Props     map[string]bool
}

func commitName(n uint64) string { return fmt.Sprintf("%08d-cccc-cccc-cccc-%012d", n, n) }

func lifeRoots(o LifeOpts) []engine.Root {
	var roots []engine.Root
	mk := func(w *world.World) []engine.SetupStep {
		return SetupBase(w, []int{world.O, world.W, world.P}, []int{world.G}, o.SPs, o.Capacity)
	}
	size := o.Sizes[len(o.Sizes)-1]
	for _, name := range o.Roots {
		name := name
		var extra func(w *world.World) []engine.SetupStep
		switch name {
		case "R0":
			extra = func(w *world.World) []engine.SetupStep { return nil }
		case "R1", "R2", "R3": // completed, 2 shards; R2 = +renewed with top-up; R3 = + migrating
			extra = func(w *world.World) []engine.SetupStep {
				st := []engine.SetupStep{
					fixed(Tx("store", "store(setup)", StoreMsg(w, StoreP{Signer: world.O, Relayer: world.G, Gateway: world.G, DataId: world.Data1, CommitId: world.Data1, Size: size, Replica: 2, Duration: 3600, Timeout: 100}))),
					CompleteNth(1, 0), CompleteNth(1, 0),
				}
				if name == "R2" {
					st = append(st, fixed(Tx("renew", "renew(setup)", RenewMsg(w, world.O, world.G, world.G, 7200, 100, world.Data1))))
				}
				if name == "R3" {
					st = append(st, func(w *world.World, ctx sdk.Context) engine.Op {
						o1, _ := w.App.OrderKeeper.GetOrder(ctx, 1)
						sh, _ := w.App.OrderKeeper.GetShard(ctx, o1.Shards[0])
						return Tx("migrate", "migrate(setup)", &saotypes.MsgMigrate{Creator: sh.Sp, Provider: sh.Sp, Data: []string{world.Data1}})
					})
				}
				return st
			}
		default:
			panic("unknown root " + name)
		}
		roots = append(roots, engine.Root{Name: name, Setup: func(w *world.World) []engine.SetupStep {
			return append(mk(w), extra(w)...)
		}})
	}
	return roots
}

func LifeScenario(o LifeOpts) *engine.Scenario {
	sc := &engine.Scenario{ID: o.ID, Cfg: o.Cfg, Depth: o.Depth, Rewards: o.Cfg.BlockReward > 0}
	sc.Roots = lifeRoots(o)
	sc.Ops = func(w *world.World, ctx sdk.Context, s *engine.State) []engine.Op { return lifeOps(w, ctx, o) }
	sc.Oracle = NewLifeOracle(o.Props)
	return sc
}

func lifeOps(w *world.World, ctx sdk.Context, o LifeOpts) []engine.Op {
	var out []engine.Op
	a := w.App
	nextOrder := a.OrderKeeper.GetOrderCount(ctx)
	for _, d := range o.DataIds {
		meta, exists := a.ModelKeeper.GetMetadata(ctx, d)
		for _, sz := range o.Sizes {
			for _, rep := range o.Replicas {
				for _, dur := range o.Durations {
					for _, to := range o.Timeouts {
						args := fmt.Sprintf("%s,sz=%d,r=%d,d=%d,t=%d", d[:2], sz, rep, dur, to)
						if !exists {
							out = append(out, Tx("store", "store("+args+")", StoreMsg(w, StoreP{Signer: world.O, Relayer: world.G, Gateway: world.G, DataId: d, CommitId: d, Size: sz, Replica: rep, Duration: dur, Timeout: to})))
							if o.Pending {
								out = append(out, Tx("store-pending", "store-pending("+args+")", StoreMsg(w, StoreP{Signer: world.O, Relayer: world.O, Gateway: world.G, DataId: d, CommitId: d, Size: sz, Replica: rep, Duration: dur, Timeout: to})))
							}
							if o.Sponsor {
								out = append(out, Tx("store-sponsored", "store-sponsored("+args+")", StoreMsg(w, StoreP{Signer: world.O, Relayer: world.P, Gateway: world.G, DataId: d, CommitId: d, Size: sz, Replica: rep, Duration: dur, Timeout: to, PayDid: w.A(world.P).Did})))
							}
						} else {
							if o.Update {
								cid := meta.Commit + "|" + commitName(nextOrder)
								out = append(out, Tx("update", "update("+args+")", StoreMsg(w, StoreP{Signer: world.O, Relayer: world.G, Gateway: world.G, DataId: d, CommitId: cid, Size: sz, Replica: rep, Duration: dur, Timeout: to, Cid: world.Cid2})))
							}
							if o.ForcePush {
								cid := meta.Commit + "|" + commitName(nextOrder)
								out = append(out, Tx("forcepush", "forcepush("+args+")", StoreMsg(w, StoreP{Signer: world.O, Relayer: world.G, Gateway: world.G, DataId: d, CommitId: cid, Size: sz, Replica: rep, Duration: dur, Timeout: to, Operation: 2, Cid: world.Cid2})))
							}
						}
					}
				}
			}
		}
		if exists {
			if o.Terminate {
				out = append(out, Tx("terminate", "terminate("+d[:2]+")", TerminateMsg(w, world.O, world.G, world.G, d)))
			}
			if o.Renew && meta.Status == modeltypes.MetaComplete {
				for _, rd := range o.RenewDur {
					out = append(out, Tx("renew", fmt.Sprintf("renew(%s,%d)", d[:2], rd), RenewMsg(w, world.O, world.G, world.G, rd, 100, d)))
				}
			}
		}
	}
	holders := map[string]bool{}
	for _, ord := range a.OrderKeeper.GetAllOrder(ctx) {
		if o.Cancel && ord.Status != ordertypes.OrderCompleted {
			out = append(out, Tx("cancel", fmt.Sprintf("cancel(o%d)", ord.Id), &saotypes.MsgCancel{Creator: ord.Creator, Provider: ord.Creator, OrderId: ord.Id}))
		}
		if o.Pending && ord.Status == ordertypes.OrderPending {
			out = append(out, Tx("ready", fmt.Sprintf("ready(o%d)", ord.Id), &saotypes.MsgReady{Creator: ord.Provider, Provider: ord.Provider, OrderId: ord.Id}))
		}
		if ord.Operation == 3 {
			continue
		}
		for _, sid := range ord.Shards {
			sh, ok := a.OrderKeeper.GetShard(ctx, sid)
			if !ok {
				continue
			}
			if sh.Status == ordertypes.ShardWaiting || sh.Status == ordertypes.ShardMigrating {
				out = append(out, CompleteOp(w, ord.Id, sh))
			}
			if sh.Status == ordertypes.ShardCompleted {
				holders[sh.Sp] = true
			}
		}
	}
	for _, s := range o.SPs {
		sp := w.A(s)
		if o.Migrate && holders[sp.S()] {
			for _, d := range o.DataIds {
				if _, ok := a.ModelKeeper.GetMetadata(ctx, d); ok {
					out = append(out, Tx("migrate", fmt.Sprintf("migrate(%s,%s)", sp.Name, d[:2]), &saotypes.MsgMigrate{Creator: sp.S(), Provider: sp.S(), Data: []string{d}}))
				}
			}
		}
		if o.Claim {
			if _, ok := a.MarketKeeper.GetWorker(ctx, world.Denom+"-"+sp.S()); ok {
				out = append(out, Tx("claim", "claim("+sp.Name+")", &nodetypes.MsgClaimReward{Creator: sp.S()}))
			}
		}
		if o.RemoveCap {
			if p, ok := a.NodeKeeper.GetPledge(ctx, sp.S()); ok {
				free := p.TotalStorage - p.UsedStorage
				for _, sz := range uniq64([]int64{1_000_000, free, free + 1_000_000}) {
					if sz > 0 {
						out = append(out, Tx("removev", fmt.Sprintf("removev(%s,%d)", sp.Name, sz), &nodetypes.MsgRemoveVstorage{Creator: sp.S(), Size_: uint64(sz)}))
					}
				}
				out = append(out, Tx("addv", fmt.Sprintf("addv(%s,1000001)", sp.Name), &nodetypes.MsgAddVstorage{Creator: sp.S(), Size_: 1_000_001}))
			}
		}
		if o.Drain {
			if b := w.Bal(ctx, sp.Addr); b.IsPositive() && holders[sp.S()] {
				out = append(out, SendOp(w, s, world.T, b, "drain("+sp.Name+")"))
			}
		}
	}
	out = append(out, AdvanceOps(w, ctx, o.Mid, o.MaxHeight)...)
	return out
}

func uniq64(l []int64) []int64 {
	seen := map[int64]bool{}
	var out []int64
	for _, v := range l {
		if !seen[v] {
			seen[v] = true
			out = append(out, v)
		}
	}
	return out
}

// ---------------------------------------------------------------------------------------------

// LifeOracle evaluates the lifecycle-family properties selected in Props on one exploration.
type LifeOracle struct {
	Props map[string]bool
}

func NewLifeOracle(props map[string]bool) *LifeOracle { return &LifeOracle{Props: props} }

type lifeGhost struct{}

func (g *lifeGhost) Clone() engine.Ghost { c := *g; return &c }
func (g *lifeGhost) Bytes() []byte       { return nil }

func (o *LifeOracle) InitGhost(w *world.World, ctx sdk.Context) engine.Ghost { return &lifeGhost{} }

func (o *LifeOracle) Step(si *engine.StepInfo) []engine.Finding { return nil }

func (o *LifeOracle) State(w *world.World, ctx sdk.Context, s *engine.State) []engine.Finding {
	sn := TakeSnap(w, ctx)
	var out []engine.Finding
	if o.Props["C13"] {
		out = append(out, C13State(sn)...)
	}
	if o.Props["C14"] {
		out = append(out, C14State(sn)...)
	}
	return out
}

func (o *LifeOracle) NonTrivial(w *world.World, ctx sdk.Context, s *engine.State) bool {
	// a state is non-trivial for the lifecycle family if at least one shard has been completed in it
	for _, sh := range w.App.OrderKeeper.GetAllShard(ctx) {
		if sh.Status == ordertypes.ShardCompleted {
			return true
		}
	}
	return false
}
