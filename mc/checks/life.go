package checks

import (
	"fmt"
	"strings"

	"saomc/engine"
	"saomc/world"

	markettypes "github.com/SaoNetwork/sao/x/market/types"
	modelkeeper "github.com/SaoNetwork/sao/x/model/keeper"
	modeltypes "github.com/SaoNetwork/sao/x/model/types"
	nodetypes "github.com/SaoNetwork/sao/x/node/types"
	ordertypes "github.com/SaoNetwork/sao/x/order/types"
	saotypes "github.com/SaoNetwork/sao/x/sao/types"
	sdk "github.com/cosmos/cosmos-sdk/types"
)

// LifeOpts parameterises the lifecycle alphabet.
type LifeOpts struct {
	ID        string
	Cfg       world.Config
	Depth     int
	SPs       []int
	Capacity  uint64
	DataIds   []string
	Sizes     []uint64
	Replicas  []int32
	Durations []uint64
	Timeouts  []int32
	RenewDur  []uint64
	Update    bool // offer content updates on existing models
	BadBases  bool // also offer updates whose base is stale / empty / a proper substring / malformed
	ForcePush bool
	Migrate   bool
	Claim     bool
	Cancel    bool
	Terminate bool
	Renew     bool
	Pending   bool  // offer stores relayed by the owner's own account (order stays pending) + Ready; needs SidOwner
	Unnamed   bool  // offer stores with an empty alias (unnamed models)
	Regenesis bool  // offer "export the six custom modules and re-initialise them from the export" as an environment move
	SidOwner  bool  // the owner is a did:sid identity bound to account T (only such accounts can submit their own requests)
	Sponsor   bool  // offer sponsored stores (payer P)
	NoOwnerPA bool  // the owner DID never sets a payment address (refunds are parked for the DID)
	NoPlain   bool  // do not offer owner-paid stores
	SuperS1   bool  // provider S1 holds the super role (needs Cfg with two validators and a small capacity threshold)
	RemoveCap bool  // offer RemoveVstorage / AddVstorage
	Drain     bool  // offer "provider sends away all funds" (debt creation)
	Mid       bool  // offer midpoint jumps
	MaxHeight int64 // do not advance beyond
	Roots     []string
	Props     map[string]bool
}

func commitName(n uint64) string { return fmt.Sprintf("%08d-cccc-cccc-cccc-%012d", n, n) }

func lifeRoots(o LifeOpts) []engine.Root {
	var roots []engine.Root
	mk := func(w *world.World) []engine.SetupStep {
		owners := []int{world.O, world.W, world.P}
		if o.NoOwnerPA {
			owners = []int{world.W, world.P}
		}
		st := SetupBase(w, owners, []int{world.G}, o.SPs, o.Capacity)
		if o.SidOwner {
			t := w.A(world.T)
			st = append(st, fixed(Tx("bind", "bind(LS,T)", world.BindingMsg(sidLife, t, t, world.CosmosProof(t, sidLife.Did, "bind "+sidLife.Did, sidLife.Ts)))))
		}
		if o.SuperS1 {
			v := sdk.ValAddress(w.A(world.V).Addr).String()
			st = append(st, fixed(Tx("delegate", "delegate(S1,setup)", stakingDelegate(w, world.S1, v, 200_000_000))),
				fixed(Tx("reset", "reset(S1,super,setup)", &nodetypes.MsgReset{Creator: w.A(world.S1).S(), Status: FullStatus, Validator: v})))
		}
		return st
	}
	size := o.Sizes[len(o.Sizes)-1]
	for _, name := range o.Roots {
		name := name
		var extra func(w *world.World) []engine.SetupStep
		switch name {
		case "R0":
			extra = func(w *world.World) []engine.SetupStep { return nil }
		case "R1", "R2", "R3": // completed, 2 shards; R2 = +renewed with top-up; R3 = + migrating
			extra = func(w *world.World) []engine.SetupStep {
				st := []engine.SetupStep{
					fixed(Tx("store", "store(setup)", StoreMsg(w, StoreP{Signer: world.O, Relayer: world.G, Gateway: world.G, DataId: world.Data1, CommitId: world.Data1, Size: size, Replica: 2, Duration: 3600, Timeout: 100}))),
					CompleteNth(1, 0), CompleteNth(1, 0),
				}
				if name == "R2" {
					st = append(st, fixed(Tx("renew", "renew(setup)", RenewMsg(w, world.O, world.G, world.G, 7200, 100, world.Data1))))
				}
				if name == "R3" {
					st = append(st, func(w *world.World, ctx sdk.Context) engine.Op {
						o1, _ := w.App.OrderKeeper.GetOrder(ctx, 1)
						sh, _ := w.App.OrderKeeper.GetShard(ctx, o1.Shards[0])
						return Tx("migrate", "migrate(setup)", &saotypes.MsgMigrate{Creator: sh.Sp, Provider: sh.Sp, Data: []string{world.Data1}})
					})
				}
				return st
			}
		case "R5": // one replica, renewed, then migrated to a provider without funds: collateral debt exists
			extra = func(w *world.World) []engine.SetupStep {
				return []engine.SetupStep{
					fixed(Tx("store", "store(setup)", StoreMsg(w, StoreP{Signer: world.O, Relayer: world.G, Gateway: world.G, DataId: world.Data1, CommitId: world.Data1, Size: size, Replica: 1, Duration: 7200, Timeout: 100}))),
					CompleteNth(1, 0),
					fixed(Tx("renew", "renew(setup)", RenewMsg(w, world.O, world.G, world.G, 7200, 100, world.Data1))),
					func(w *world.World, ctx sdk.Context) engine.Op {
						sh, _ := w.App.OrderKeeper.GetShard(ctx, 0)
						other := world.S1
						if w.A(world.S1).S() == sh.Sp {
							other = world.S2
						}
						return SendOp(w, other, world.T, w.Bal(ctx, w.A(other).Addr).SubRaw(10), "drain(setup)")
					},
					func(w *world.World, ctx sdk.Context) engine.Op {
						sh, _ := w.App.OrderKeeper.GetShard(ctx, 0)
						return Tx("migrate", "migrate(setup)", &saotypes.MsgMigrate{Creator: sh.Sp, Provider: sh.Sp, Data: []string{world.Data1}})
					},
					CompleteNth(2, 0),
				}
			}
		case "R7": // two models of different paid length held by the same providers: D1 for 7200 blocks, D2 for 3600
			extra = func(w *world.World) []engine.SetupStep {
				return []engine.SetupStep{
					fixed(Tx("store", "store(11,7200,setup)", StoreMsg(w, StoreP{Signer: world.O, Relayer: world.G, Gateway: world.G, DataId: world.Data1, CommitId: world.Data1, Size: size, Replica: 1, Duration: 7200, Timeout: 100}))),
					CompleteNth(1, 0),
					fixed(Tx("store", "store(22,3600,setup)", StoreMsg(w, StoreP{Signer: world.O, Relayer: world.G, Gateway: world.G, DataId: world.Data2, CommitId: world.Data2, Size: size, Replica: 1, Duration: 3600, Timeout: 100}))),
					CompleteNth(2, 0),
				}
			}
		case "R6": // one replica of 1 MB for 3600 blocks, completed; the holder then moved its funds away: a renewal to a
			// longer period finds the provider unable to pay the collateral top-up
			extra = func(w *world.World) []engine.SetupStep {
				return []engine.SetupStep{
					fixed(Tx("store", "store(setup)", StoreMsg(w, StoreP{Signer: world.O, Relayer: world.G, Gateway: world.G, DataId: world.Data1, CommitId: world.Data1, Size: 1_000_000, Replica: 1, Duration: 3600, Timeout: 100}))),
					CompleteNth(1, 0),
					func(w *world.World, ctx sdk.Context) engine.Op {
						sh, _ := w.App.OrderKeeper.GetShard(ctx, 0)
						holder := world.S1
						if w.A(world.S2).S() == sh.Sp {
							holder = world.S2
						}
						return SendOp(w, holder, world.T, w.Bal(ctx, w.A(holder).Addr).SubRaw(10), "drain(setup)")
					},
				}
			}
		default:
			panic("unknown root " + name)
		}
		roots = append(roots, engine.Root{Name: name, Setup: func(w *world.World) []engine.SetupStep {
			return append(mk(w), extra(w)...)
		}})
	}
	return roots
}

func LifeScenario(o LifeOpts) *engine.Scenario {
	sc := &engine.Scenario{ID: o.ID, Cfg: o.Cfg, Depth: o.Depth, Rewards: o.Cfg.BlockReward > 0}
	sc.Roots = lifeRoots(o)
	sc.Ops = func(w *world.World, ctx sdk.Context, s *engine.State) []engine.Op { return lifeOps(w, ctx, o) }
	sc.Oracle = NewLifeOracle(o.Props)
	return sc
}

// sidLife is the did:sid owner of the scenarios with SidOwner (bound to account T, which is then its payment address).
var sidLife = world.NewSid("LS", "sid-life-owner", uint64(world.BlockTime(1).Unix()))

// asSid re-issues an owner-signed request in the name of the sid owner.
func asSid(m sdk.Msg, sid *world.Sid) sdk.Msg {
	kid := sid.Kid(sid.DocId)
	switch x := m.(type) {
	case *saotypes.MsgStore:
		x.Proposal.Owner = sid.Did
		x.JwsSignature = world.SignKid(sid.KeyPriv, kid, &x.Proposal)
	case *saotypes.MsgTerminate:
		x.Proposal.Owner = sid.Did
		x.JwsSignature = world.SignKid(sid.KeyPriv, kid, &x.Proposal)
	case *saotypes.MsgRenew:
		x.Proposal.Owner = sid.Did
		x.JwsSignature = world.SignKid(sid.KeyPriv, kid, &x.Proposal)
	}
	return m
}

func lifeOps(w *world.World, ctx sdk.Context, o LifeOpts) []engine.Op {
	out := lifeOps0(w, ctx, o)
	if o.SidOwner {
		for i := range out {
			if out[i].Msg != nil && out[i].Kind != "store-sponsored" {
				out[i].Msg = asSid(out[i].Msg, sidLife)
			}
		}
	}
	return out
}

func lifeOps0(w *world.World, ctx sdk.Context, o LifeOpts) []engine.Op {
	var out []engine.Op
	a := w.App
	nextOrder := a.OrderKeeper.GetOrderCount(ctx)
	for _, d := range o.DataIds {
		meta, exists := a.ModelKeeper.GetMetadata(ctx, d)
		for _, sz := range o.Sizes {
			for _, rep := range o.Replicas {
				for _, dur := range o.Durations {
					for _, to := range o.Timeouts {
						args := fmt.Sprintf("%s,sz=%d,r=%d,d=%d,t=%d", d[:2], sz, rep, dur, to)
						if !exists && o.NoPlain {
							out = append(out, Tx("store-sponsored", "store-sponsored("+args+")", StoreMsg(w, StoreP{Signer: world.O, Relayer: world.P, Gateway: world.G, DataId: d, CommitId: d, Size: sz, Replica: rep, Duration: dur, Timeout: to, PayDid: w.A(world.P).Did})))
						} else if !exists {
							out = append(out, Tx("store", "store("+args+")", StoreMsg(w, StoreP{Signer: world.O, Relayer: world.G, Gateway: world.G, DataId: d, CommitId: d, Size: sz, Replica: rep, Duration: dur, Timeout: to})))
							if o.Unnamed {
								out = append(out, Tx("store-unnamed", "store-unnamed("+args+")", StoreMsg(w, StoreP{Signer: world.O, Relayer: world.G, Gateway: world.G, DataId: d, CommitId: d, Size: sz, Replica: rep, Duration: dur, Timeout: to, NoAlias: true})))
							}
							if o.Pending {
								out = append(out, Tx("store-pending", "store-pending("+args+")", StoreMsg(w, StoreP{Signer: world.O, Relayer: world.T, Gateway: world.G, DataId: d, CommitId: d, Size: sz, Replica: rep, Duration: dur, Timeout: to})))
							}
							if o.Sponsor {
								out = append(out, Tx("store-sponsored", "store-sponsored("+args+")", StoreMsg(w, StoreP{Signer: world.O, Relayer: world.P, Gateway: world.G, DataId: d, CommitId: d, Size: sz, Replica: rep, Duration: dur, Timeout: to, PayDid: w.A(world.P).Did})))
							}
						} else {
							if o.Update {
								cid := meta.Commit + "|" + commitName(nextOrder)
								out = append(out, Tx("update", "update("+args+")", StoreMsg(w, StoreP{Signer: world.O, Relayer: world.G, Gateway: world.G, DataId: d, CommitId: cid, Size: sz, Replica: rep, Duration: dur, Timeout: to, Cid: world.Cid2, Alias: meta.Alias, NoAlias: meta.Alias == ""})))
								if o.Pending {
									out = append(out, Tx("update-pending", "update-pending("+args+")", StoreMsg(w, StoreP{Signer: world.O, Relayer: world.T, Gateway: world.G, DataId: d, CommitId: cid, Size: sz, Replica: rep, Duration: dur, Timeout: to, Cid: world.Cid2})))
								}
							}
							if o.BadBases && sz == o.Sizes[0] && rep == o.Replicas[0] && dur == o.Durations[0] && to == o.Timeouts[0] {
								bases := map[string]string{"empty": "", "substring": meta.Commit[:len(meta.Commit)/2], "triple": meta.Commit + "|x"}
								if len(meta.Commits) >= 2 {
									bases["stale"] = modelkeeper.CommitFromVersion(meta.Commits[len(meta.Commits)-2])
								}
								for _, bn := range sortedKeys(bases) {
									cid := bases[bn] + "|" + commitName(nextOrder)
									out = append(out, Tx("update-badbase", "update-badbase("+bn+","+args+")", StoreMsg(w, StoreP{Signer: world.O, Relayer: world.G, Gateway: world.G, DataId: d, CommitId: cid, Size: sz, Replica: rep, Duration: dur, Timeout: to, Cid: world.Cid2})))
								}
							}
							if o.ForcePush {
								cid := meta.Commit + "|" + commitName(nextOrder)
								out = append(out, Tx("forcepush", "forcepush("+args+")", StoreMsg(w, StoreP{Signer: world.O, Relayer: world.G, Gateway: world.G, DataId: d, CommitId: cid, Size: sz, Replica: rep, Duration: dur, Timeout: to, Operation: 2, Cid: world.Cid2, Alias: meta.Alias, NoAlias: meta.Alias == ""})))
							}
						}
					}
				}
			}
		}
		if exists {
			if o.Terminate {
				out = append(out, Tx("terminate", "terminate("+d[:2]+")", TerminateMsg(w, world.O, world.G, world.G, d)))
			}
			if o.Renew && meta.Status == modeltypes.MetaComplete {
				for _, rd := range o.RenewDur {
					out = append(out, Tx("renew", fmt.Sprintf("renew(%s,%d)", d[:2], rd), RenewMsg(w, world.O, world.G, world.G, rd, 100, d)))
				}
			}
		}
	}
	// multi-model requests: one renewal naming every existing model
	if o.Renew && len(o.DataIds) > 1 {
		var all []string
		for _, d := range o.DataIds {
			if m, ok := a.ModelKeeper.GetMetadata(ctx, d); ok && m.Status == modeltypes.MetaComplete {
				all = append(all, d)
			}
		}
		if len(all) > 1 {
			out = append(out, Tx("renew", fmt.Sprintf("renew(all,%d)", o.RenewDur[0]), RenewMsg(w, world.O, world.G, world.G, o.RenewDur[0], 100, all...)))
			var rev []string
			for i := len(all) - 1; i >= 0; i-- {
				rev = append(rev, all[i])
			}
			out = append(out, Tx("renew", fmt.Sprintf("renew(all-reversed,%d)", o.RenewDur[0]), RenewMsg(w, world.O, world.G, world.G, o.RenewDur[0], 100, rev...)))
		}
	}
	holders := map[string]bool{}
	for _, ord := range a.OrderKeeper.GetAllOrder(ctx) {
		if o.Cancel && ord.Status != ordertypes.OrderCompleted {
			out = append(out, Tx("cancel", fmt.Sprintf("cancel(o%d)", ord.Id), &saotypes.MsgCancel{Creator: ord.Creator, Provider: ord.Creator, OrderId: ord.Id}))
		}
		if o.Pending && ord.Status == ordertypes.OrderPending {
			out = append(out, Tx("ready", fmt.Sprintf("ready(o%d)", ord.Id), &saotypes.MsgReady{Creator: ord.Provider, Provider: ord.Provider, OrderId: ord.Id}))
		}
		for _, sid := range ord.Shards {
			sh, ok := a.OrderKeeper.GetShard(ctx, sid)
			if !ok {
				continue
			}
			// a renewal order lists the shards it renews; a migration requested after the renewal is created under
			// it and is completed with its id
			if ord.Operation == 3 && !(sh.Status == ordertypes.ShardMigrating && sh.OrderId == ord.Id) {
				continue
			}
			if sh.Status == ordertypes.ShardWaiting || sh.Status == ordertypes.ShardMigrating {
				out = append(out, CompleteOp(w, ord.Id, sh))
			}
			if sh.Status == ordertypes.ShardCompleted {
				holders[sh.Sp] = true
			}
		}
	}
	for _, s := range o.SPs {
		sp := w.A(s)
		if o.Migrate && holders[sp.S()] && len(o.DataIds) > 1 {
			out = append(out, Tx("migrate", fmt.Sprintf("migrate(%s,all)", sp.Name), &saotypes.MsgMigrate{Creator: sp.S(), Provider: sp.S(), Data: o.DataIds}))
		}
		if o.Migrate && holders[sp.S()] {
			for _, d := range o.DataIds {
				if _, ok := a.ModelKeeper.GetMetadata(ctx, d); ok {
					out = append(out, Tx("migrate", fmt.Sprintf("migrate(%s,%s)", sp.Name, d[:2]), &saotypes.MsgMigrate{Creator: sp.S(), Provider: sp.S(), Data: []string{d}}))
				}
			}
		}
		if o.Claim {
			if _, ok := a.MarketKeeper.GetWorker(ctx, world.Denom+"-"+sp.S()); ok {
				out = append(out, Tx("claim", "claim("+sp.Name+")", &nodetypes.MsgClaimReward{Creator: sp.S()}))
			}
		}
		if o.RemoveCap {
			if p, ok := a.NodeKeeper.GetPledge(ctx, sp.S()); ok {
				free := p.TotalStorage - p.UsedStorage
				for _, sz := range uniq64([]int64{1_000_000, free, free + 999_999, free + 1_000_000}) {
					if sz > 0 {
						out = append(out, Tx("removev", fmt.Sprintf("removev(%s,%d)", sp.Name, sz), &nodetypes.MsgRemoveVstorage{Creator: sp.S(), Size_: uint64(sz)}))
					}
				}
				out = append(out, Tx("addv", fmt.Sprintf("addv(%s,1000001)", sp.Name), &nodetypes.MsgAddVstorage{Creator: sp.S(), Size_: 1_000_001}))
			}
		}
		if o.Drain {
			// the provider moves (almost) all its liquid funds away: later pledges / top-ups create debt
			if b := w.Bal(ctx, sp.Addr); b.GT(sdk.NewInt(10)) {
				out = append(out, SendOp(w, s, world.T, b.SubRaw(10), "drain("+sp.Name+")"))
			}
		}
	}
	out = append(out, AdvanceOps(w, ctx, o.Mid, o.MaxHeight)...)
	if o.Regenesis {
		out = append(out, RegenesisOp())
	}
	return out
}

func uniq64(l []int64) []int64 {
	seen := map[int64]bool{}
	var out []int64
	for _, v := range l {
		if !seen[v] {
			seen[v] = true
			out = append(out, v)
		}
	}
	return out
}

// ---------------------------------------------------------------------------------------------

// LifeOracle evaluates the lifecycle-family properties selected in Props on one exploration.
type LifeOracle struct {
	Props map[string]bool
}

func NewLifeOracle(props map[string]bool) *LifeOracle { return &LifeOracle{Props: props} }

type lifeGhost struct {
	Income  map[string]sdk.Dec // reference: integral of price x bytes x blocks per provider
	Claimed map[string]sdk.Int // observed market->provider payouts
	// RenewMig: renewal orders created while one of the listed shards was a pending migration (pins D20)
	RenewMig             map[uint64]bool
	Pending              map[uint64]pendInfo // C05: orders without a completed shard
	PaidUntil            map[uint64]int64    // C11: open shards -> last paid height
	ShardData            map[uint64]string
	MaxOrder, MaxShard   uint64 // C16
	SeenOrder, SeenShard bool
	Handed               map[uint64]int64 // C12: orders handed to providers by MsgReady -> height of the hand-over
}

func (g *lifeGhost) Clone() engine.Ghost {
	c := newLifeGhost()
	c.MaxOrder, c.MaxShard, c.SeenOrder, c.SeenShard = g.MaxOrder, g.MaxShard, g.SeenOrder, g.SeenShard
	for k, v := range g.Pending {
		c.Pending[k] = v
	}
	for k, v := range g.PaidUntil {
		c.PaidUntil[k] = v
	}
	for k, v := range g.ShardData {
		c.ShardData[k] = v
	}
	for k := range g.RenewMig {
		c.RenewMig[k] = true
	}
	for k, v := range g.Income {
		c.Income[k] = v
	}
	for k, v := range g.Claimed {
		c.Claimed[k] = v
	}
	for k, v := range g.Handed {
		c.Handed[k] = v
	}
	return c
}
func (g *lifeGhost) Bytes() []byte {
	var b strings.Builder
	b.WriteString(ghostBytesDec(g.Income) + "|" + ghostBytesInt(g.Claimed) + "|" + fmt.Sprint(sortedU64(g.RenewMig)) + "|")
	for _, k := range sortedU64(g.Pending) {
		p := g.Pending[k]
		fmt.Fprintf(&b, "%d:%s:%s:%x;", k, p.Payer, p.Amount, p.MetaBefore)
	}
	for _, k := range sortedU64(g.PaidUntil) {
		fmt.Fprintf(&b, "%d>%d:%s;", k, g.PaidUntil[k], g.ShardData[k])
	}
	for _, k := range sortedU64(g.Handed) {
		fmt.Fprintf(&b, "%d@%d;", k, g.Handed[k])
	}
	// MaxOrder/MaxShard are functions of the order/shard counters in the store: not part of the key
	return []byte(b.String())
}

func (o *LifeOracle) InitGhost(w *world.World, ctx sdk.Context) engine.Ghost {
	g := newLifeGhost()
	// orders / shards that exist in a root were created by its setup
	for _, o := range w.App.OrderKeeper.GetAllOrder(ctx) {
		if o.Id > g.MaxOrder || !g.SeenOrder {
			g.MaxOrder, g.SeenOrder = o.Id, true
		}
	}
	sn := TakeSnap(w, ctx)
	for _, sid := range sn.ShardIds {
		sh := sn.Shards[sid]
		if sid > g.MaxShard || !g.SeenShard {
			g.MaxShard, g.SeenShard = sid, true
		}
		if sh.Status == ordertypes.ShardCompleted {
			end := int64(sh.CreatedAt + sh.Duration)
			for _, r := range sh.RenewInfos {
				end += int64(r.Duration)
			}
			g.PaidUntil[sid] = end
			if o, ok := sn.Orders[sh.OrderId]; ok {
				g.ShardData[sid] = o.DataId
			}
		}
	}
	return g
}

func newLifeGhost() *lifeGhost {
	return &lifeGhost{Income: map[string]sdk.Dec{}, Claimed: map[string]sdk.Int{}, RenewMig: map[uint64]bool{},
		Pending: map[uint64]pendInfo{}, PaidUntil: map[uint64]int64{}, ShardData: map[uint64]string{}, Handed: map[uint64]int64{}}
}

func (o *LifeOracle) Step(si *engine.StepInfo) []engine.Finding {
	var out []engine.Finding
	if o.Props["C06"] {
		out = append(out, C06Step(si)...)
	}
	if si.Post == nil {
		return out
	}
	w := si.W
	pre, post := snapOf(w, si.PreCtx, si.Pre), snapOf(w, si.PostCtx, si.Post)
	lp, lq := ledgerOf(w, si.PreCtx, si.Pre), ledgerOf(w, si.PostCtx, si.Post)
	g := si.Post.G.(*lifeGhost)
	if si.Op.EndTo > 0 {
		refIncomeAdvance(pre, g, pre.H, post.H)
	}
	for _, oid := range post.OrderIds {
		if _, old := pre.Orders[oid]; !old && post.Orders[oid].Operation == 3 {
			for _, sid := range post.Orders[oid].Shards {
				if sh, ok := post.Shards[sid]; ok && sh.Status == ordertypes.ShardMigrating {
					g.RenewMig[oid] = true
				}
			}
		}
	}
	for oid := range g.RenewMig {
		if _, ok := post.Orders[oid]; !ok {
			delete(g.RenewMig, oid)
		}
	}
	// orders picked up by their gateway in this step (pending -> handed to providers)
	for _, oid := range post.OrderIds {
		if po, old := pre.Orders[oid]; old && po.Status == ordertypes.OrderPending && post.Orders[oid].Status != ordertypes.OrderPending {
			g.Handed[oid] = pre.H
		}
	}
	for oid := range g.Handed {
		if _, ok := post.Orders[oid]; !ok {
			delete(g.Handed, oid)
		}
	}
	market := world.ModAddr(markettypes.ModuleName).String()
	for _, f := range si.Res.Flows {
		if f.From == market && si.Op.Kind == "claim" {
			// income paid to the claimer, or (market -> node escrow) used to repay the claimer's recorded collateral debt
			to := f.To
			if isModule(f.To) == nodetypes.ModuleName {
				to = si.Op.Msg.GetSigners()[0].String()
			} else if isModule(f.To) != "" {
				continue
			}
			if v, ok := g.Claimed[to]; ok {
				g.Claimed[to] = v.Add(f.Amt)
			} else {
				g.Claimed[to] = f.Amt
			}
		}
	}
	if o.Props["C04"] {
		out = append(out, C04Step(si, pre, post, lp, lq)...)
	}
	if f := C05Step(si, pre, post, g); o.Props["C05"] {
		out = append(out, f...)
	}
	if f := C11Step(si, pre, post, g); o.Props["C11"] {
		out = append(out, f...)
	}
	if o.Props["C12"] {
		out = append(out, C12Step(si, pre, post)...)
	}
	if o.Props["C15"] {
		out = append(out, C15Step(si, pre, post)...)
	}
	if f := C16Step(si, pre, post, g); o.Props["C16"] {
		out = append(out, f...)
	}
	if o.Props["C07"] {
		out = append(out, C07Step(si, pre, post, lp, lq)...)
	}
	return out
}

func (o *LifeOracle) State(w *world.World, ctx sdk.Context, s *engine.State) []engine.Finding {
	sn := snapOf(w, ctx, s)
	var out []engine.Finding
	if o.Props["C13"] {
		out = append(out, C13State(sn, s.G.(*lifeGhost))...)
	}
	if o.Props["C14"] {
		out = append(out, C14State(sn)...)
	}
	if o.Props["C04"] {
		out = append(out, C04State(ledgerOf(w, ctx, s), s.G.(*lifeGhost))...)
	}
	if o.Props["C06"] {
		out = append(out, C06State(ledgerOf(w, ctx, s))...)
	}
	if o.Props["C07"] {
		out = append(out, C07State(sn)...)
		out = append(out, C07Withdrawable(w, ctx, sn)...)
	}
	if o.Props["C11"] {
		out = append(out, C11State(sn, s.G.(*lifeGhost))...)
	}
	if o.Props["C12"] {
		out = append(out, C12State(sn, s.G.(*lifeGhost))...)
	}
	if o.Props["C16"] {
		out = append(out, C16State(sn)...)
	}
	return out
}
func (o *LifeOracle) NonTrivial(w *world.World, ctx sdk.Context, s *engine.State) bool {
	// a state is non-trivial for the lifecycle family if at least one shard has been completed in it
	for _, sh := range w.App.OrderKeeper.GetAllShard(ctx) {
		if sh.Status == ordertypes.ShardCompleted {
			return true
		}
	}
	return false
}
