package checks

import (
	"bytes"
	"encoding/binary"
	"encoding/json"
	"fmt"
	"os"
	"sort"
	"strings"

	"saomc/engine"
	"saomc/replica"
	"saomc/world"

	"github.com/SaoNetwork/sao/app"
	servertypes "github.com/cosmos/cosmos-sdk/server/types"
	stakingtypes "github.com/cosmos/cosmos-sdk/x/staking/types"
	abci "github.com/tendermint/tendermint/abci/types"
	cryptoenc "github.com/tendermint/tendermint/crypto/encoding"

	didmod "github.com/SaoNetwork/sao/x/did"
	didtypes "github.com/SaoNetwork/sao/x/did/types"
	marketmod "github.com/SaoNetwork/sao/x/market"
	markettypes "github.com/SaoNetwork/sao/x/market/types"
	modelmod "github.com/SaoNetwork/sao/x/model"
	modeltypes "github.com/SaoNetwork/sao/x/model/types"
	nodemod "github.com/SaoNetwork/sao/x/node"
	nodetypes "github.com/SaoNetwork/sao/x/node/types"
	ordermod "github.com/SaoNetwork/sao/x/order"
	ordertypes "github.com/SaoNetwork/sao/x/order/types"
	saomod "github.com/SaoNetwork/sao/x/sao"
	saotypes "github.com/SaoNetwork/sao/x/sao/types"
	sdk "github.com/cosmos/cosmos-sdk/types"
	dbm "github.com/tendermint/tm-db"
)

// C18: genesis export / import round trip. For every explored state: real ExportGenesis of the six modules ->
// JSON through the codec -> Validate() -> real InitGenesis into a state whose custom stores are empty -> compare
// the stores -> apply every enabled operation to both states and compare again.

// keyClass names the logical table of a raw store key ("<store>:<prefix up to the first '/'>").
func keyClass(store string, key []byte) string {
	s := string(key)
	if i := strings.Index(s, "/"); i >= 0 {
		j := strings.Index(s[i+1:], "/")
		if j >= 0 {
			return store + ":" + s[:i+1+j]
		}
		return store + ":" + s[:i]
	}
	if len(s) > 12 {
		s = s[:12]
	}
	return store + ":" + s
}

// storeDiff lists the logical tables in which two flat states differ (custom stores only), with one example each.
func storeDiff(a, b *world.Flat) map[string]string {
	out := map[string]string{}
	for _, n := range world.CustomStores {
		am, bm := map[string][]byte{}, map[string][]byte{}
		for _, x := range []struct {
			db *dbm.MemDB
			m  map[string][]byte
		}{{a.DBs[n], am}, {b.DBs[n], bm}} {
			it, _ := x.db.Iterator(nil, nil)
			for ; it.Valid(); it.Next() {
				x.m[string(it.Key())] = append([]byte{}, it.Value()...)
			}
			it.Close()
		}
		keys := map[string]bool{}
		for k := range am {
			keys[k] = true
		}
		for k := range bm {
			keys[k] = true
		}
		for k := range keys {
			av, aok := am[k]
			bv, bok := bm[k]
			if aok && bok && bytes.Equal(av, bv) {
				continue
			}
			// counters: an absent counter key means its default value
			if n == "order" && (k == ordertypes.OrderCountKey || k == ordertypes.ShardCountKey) {
				def := uint64(0)
				if k == ordertypes.OrderCountKey {
					def = 1
				}
				val := func(v []byte, ok bool) uint64 {
					if !ok || len(v) != 8 {
						return def
					}
					x := binary.BigEndian.Uint64(v)
					if x == 0 && k == ordertypes.OrderCountKey {
						return 1
					}
					return x
				}
				if val(av, aok) == val(bv, bok) {
					continue
				}
			}
			// the round-robin cursor: an absent cursor means 0
			if n == "node" && strings.HasPrefix(k, nodetypes.NodeRoundKeyPrefix) {
				val := func(v []byte, ok bool) byte {
					if !ok || len(v) == 0 {
						return 0
					}
					return v[0]
				}
				if val(av, aok) == val(bv, bok) {
					continue
				}
			}
			cls := keyClass(n, []byte(k))
			if _, ok := out[cls]; !ok {
				out[cls] = fmt.Sprintf("key %q: original present=%v, re-imported present=%v", k, aok, bok)
			}
		}
	}
	return out
}

// RoundTrip exports f through the six modules' genesis and imports it into empty custom stores.
func RoundTrip(w *world.World, f *world.Flat) (re *world.Flat, problems []engine.Finding) {
	ctx := w.View(f)
	cdc := w.Enc.Marshaler
	a := w.App
	gs := saomod.ExportGenesis(ctx, a.SaoKeeper)
	gn := nodemod.ExportGenesis(ctx, a.NodeKeeper)
	go_ := ordermod.ExportGenesis(ctx, a.OrderKeeper)
	gm := modelmod.ExportGenesis(ctx, a.ModelKeeper)
	gd := didmod.ExportGenesis(ctx, a.DidKeeper)
	gk := marketmod.ExportGenesis(ctx, a.MarketKeeper)
	// through JSON, as a genesis file would
	var gs2 saotypes.GenesisState
	var gn2 nodetypes.GenesisState
	var go2 ordertypes.GenesisState
	var gm2 modeltypes.GenesisState
	var gd2 didtypes.GenesisState
	var gk2 markettypes.GenesisState
	cdc.MustUnmarshalJSON(cdc.MustMarshalJSON(gs), &gs2)
	cdc.MustUnmarshalJSON(cdc.MustMarshalJSON(gn), &gn2)
	cdc.MustUnmarshalJSON(cdc.MustMarshalJSON(go_), &go2)
	cdc.MustUnmarshalJSON(cdc.MustMarshalJSON(gm), &gm2)
	cdc.MustUnmarshalJSON(cdc.MustMarshalJSON(gd), &gd2)
	cdc.MustUnmarshalJSON(cdc.MustMarshalJSON(gk), &gk2)
	for name, err := range map[string]error{"sao": gs2.Validate(), "node": gn2.Validate(), "order": go2.Validate(), "model": gm2.Validate(), "did": gd2.Validate(), "market": gk2.Validate()} {
		if err != nil {
			problems = append(problems, fd("C18", "export-rejected-by-validate", name, fmt.Sprintf("%s genesis exported from a reachable state does not validate: %v", name, err)))
		}
	}
	re = f.Clone()
	for _, n := range world.CustomStores {
		re.DBs[n] = dbm.NewMemDB()
	}
	rctx, write := w.Ctx(re)
	saomod.InitGenesis(rctx, a.SaoKeeper, gs2)
	nodemod.InitGenesis(rctx, a.NodeKeeper, gn2)
	ordermod.InitGenesis(rctx, a.OrderKeeper, go2)
	modelmod.InitGenesis(rctx, a.ModelKeeper, gm2)
	didmod.InitGenesis(rctx, a.DidKeeper, gd2)
	marketmod.InitGenesis(rctx, a.MarketKeeper, gk2)
	write()
	return re, problems
}

// RegenesisOp is an environment move for any scenario: the six custom modules are exported, their stores emptied and
// re-initialised from the export (through JSON), in place. If export/import is exact the state is unchanged (and the
// successor is pruned as already visited); if it is not, the scenario's own oracle sees the consequences in the states
// that follow.
func RegenesisOp() engine.Op {
	return engine.Op{Label: "regenesis", Kind: "regenesis", Custom: func(w *world.World, ctx sdk.Context) world.Result {
		cdc := w.Enc.Marshaler
		a := w.App
		gs := saomod.ExportGenesis(ctx, a.SaoKeeper)
		gn := nodemod.ExportGenesis(ctx, a.NodeKeeper)
		go_ := ordermod.ExportGenesis(ctx, a.OrderKeeper)
		gm := modelmod.ExportGenesis(ctx, a.ModelKeeper)
		gd := didmod.ExportGenesis(ctx, a.DidKeeper)
		gk := marketmod.ExportGenesis(ctx, a.MarketKeeper)
		var gs2 saotypes.GenesisState
		var gn2 nodetypes.GenesisState
		var go2 ordertypes.GenesisState
		var gm2 modeltypes.GenesisState
		var gd2 didtypes.GenesisState
		var gk2 markettypes.GenesisState
		cdc.MustUnmarshalJSON(cdc.MustMarshalJSON(gs), &gs2)
		cdc.MustUnmarshalJSON(cdc.MustMarshalJSON(gn), &gn2)
		cdc.MustUnmarshalJSON(cdc.MustMarshalJSON(go_), &go2)
		cdc.MustUnmarshalJSON(cdc.MustMarshalJSON(gm), &gm2)
		cdc.MustUnmarshalJSON(cdc.MustMarshalJSON(gd), &gd2)
		cdc.MustUnmarshalJSON(cdc.MustMarshalJSON(gk), &gk2)
		for _, n := range world.CustomStores {
			st := ctx.KVStore(w.KeyOf(n))
			var keys [][]byte
			it := st.Iterator(nil, nil)
			for ; it.Valid(); it.Next() {
				keys = append(keys, append([]byte{}, it.Key()...))
			}
			it.Close()
			for _, k := range keys {
				st.Delete(k)
			}
		}
		saomod.InitGenesis(ctx, a.SaoKeeper, gs2)
		nodemod.InitGenesis(ctx, a.NodeKeeper, gn2)
		ordermod.InitGenesis(ctx, a.OrderKeeper, go2)
		modelmod.InitGenesis(ctx, a.ModelKeeper, gm2)
		didmod.InitGenesis(ctx, a.DidKeeper, gd2)
		marketmod.InitGenesis(ctx, a.MarketKeeper, gk2)
		return world.Result{OK: true}
	}}
}

// GenesisOracle wraps the oracle-free exploration of another scenario.
type GenesisOracle struct {
	Ops     func(w *world.World, ctx sdk.Context, s *engine.State) []engine.Op
	Rewards bool
}

func (GenesisOracle) InitGhost(*world.World, sdk.Context) engine.Ghost { return nullGhost{} }
func (GenesisOracle) Step(*engine.StepInfo) []engine.Finding           { return nil }

func (o GenesisOracle) State(w *world.World, ctx sdk.Context, s *engine.State) []engine.Finding {
	var out []engine.Finding
	var re *world.Flat
	func() {
		defer func() {
			if r := recover(); r != nil {
				msg := fmt.Sprint(r)
				if strings.HasPrefix(msg, "HARNESS") {
					panic(r)
				}
				out = append(out, fd("C18", "round-trip-panics", engineNorm(msg), msg))
			}
		}()
		var probs []engine.Finding
		re, probs = RoundTrip(w, s.F)
		out = append(out, probs...)
	}()
	if re == nil {
		return out
	}
	base := storeDiff(s.F, re)
	for _, cls := range sortedKeys(base) {
		out = append(out, fd("C18", "state-not-reproduced", cls, fmt.Sprintf("table %s differs after export/import: %s", cls, base[cls])))
	}
	if len(base) > 0 {
		// the stores differ: every later difference is a consequence of what was just reported
		return out
	}
	// the stores agree up to "absent means default" (counters, cursor): the re-initialised chain must process the
	// same next operation with the same effects (this is what justifies that normalisation)
	for _, op := range o.Ops(w, ctx, s) {
		op := op
		a, b := s.F.Clone(), re.Clone()
		ra, ha := applyQuiet(w, a, &op, o.Rewards)
		rb, hb := applyQuiet(w, b, &op, o.Rewards)
		if ra.OK != rb.OK || (ha == "") != (hb == "") {
			out = append(out, fd("C18", "continuation-differs", op.Kind+":result", fmt.Sprintf("%s: original ok=%v halt=%q, re-imported ok=%v halt=%q (%s)", op.Label, ra.OK, ha, rb.OK, hb, rb.Err)))
			continue
		}
		after := storeDiff(a, b)
		for _, cls := range sortedKeys(after) {
			if _, was := base[cls]; !was {
				out = append(out, fd("C18", "continuation-differs", op.Kind+":"+cls, fmt.Sprintf("after %s table %s differs between the original and the re-imported chain: %s", op.Label, cls, after[cls])))
			}
		}
		xa, xb := w.View(a), w.View(b)
		for _, act := range w.Actors {
			if !w.Bal(xa, act.Addr).Equal(w.Bal(xb, act.Addr)) {
				out = append(out, fd("C18", "continuation-differs", op.Kind+":balance", fmt.Sprintf("after %s the balance of %s differs (%s vs %s)", op.Label, act.Name, w.Bal(xa, act.Addr), w.Bal(xb, act.Addr))))
				break
			}
		}
	}
	return out
}

func engineNorm(s string) string {
	if len(s) > 50 {
		s = s[:50]
	}
	return s
}

func applyQuiet(w *world.World, f *world.Flat, op *engine.Op, rewards bool) (world.Result, string) {
	ctx, write := w.Ctx(f)
	return engine.Apply(w, f, ctx, write, op, rewards, nil)
}

func (GenesisOracle) NonTrivial(w *world.World, ctx sdk.Context, s *engine.State) bool {
	return len(w.App.OrderKeeper.GetAllOrder(ctx)) > 0 || len(AllFaults(w, ctx)) > 0
}

// C18Scenarios re-use the lifecycle, fault and staking alphabets with the round-trip oracle.
func C18Scenarios(tier string) []*engine.Scenario {
	var out []*engine.Scenario
	wrap := func(sc *engine.Scenario, id string, depth int) {
		sc.ID = id
		sc.Depth = depth
		sc.Oracle = GenesisOracle{Ops: sc.Ops, Rewards: sc.Rewards}
		out = append(out, sc)
	}
	d := 4
	if tier == "thorough" {
		d = 5
	}
	life := baseLife("C18", tier, props())
	life.Roots = []string{"R0", "R2"}
	life.Update = true
	wrap(LifeScenario(life), "C18-life", d)
	wrap(C19Scenario(tier), "C18-faults", d-1)
	wrap(C20Scenario(tier), "C18-staking", d-1)
	to := TimeoutScenario(TOOpts{NSP: 3, Replica: 2, Timeout: 10, Duration: 3600, Props: props()})
	wrap(to, "C18-timeouts", d+2)
	// a super node serving orders: non-zero round-robin cursor
	sup := LifeScenario(baseLife("C18", tier, props()))
	sup.Cfg = world.Config{TwoValidators: true, VstorageThresh: 1_000_000}
	roots := sup.Roots
	sup.Roots = []engine.Root{{Name: "RS", Setup: func(w *world.World) []engine.SetupStep {
		st := roots[0].Setup(w)
		v := sdk.ValAddress(w.A(world.V).Addr).String()
		for _, i := range []int{world.S1, world.S2} {
			st = append(st, fixed(Tx("delegate", "delegate(setup)", stakingDelegate(w, i, v, 200_000_000))),
				fixed(Tx("reset", "reset(setup)", &nodetypes.MsgReset{Creator: w.A(i).S(), Status: FullStatus, Validator: v})))
		}
		return st
	}}}
	wrap(sup, "C18-supernodes", d)
	sort.Slice(out, func(i, j int) bool { return out[i].ID < out[j].ID })
	return out
}

func stakingDelegate(w *world.World, who int, val string, amt int64) sdk.Msg {
	return &stakingtypes.MsgDelegate{DelegatorAddress: w.A(who).S(), ValidatorAddress: val, Amount: sdk.NewInt64Coin(world.Denom, amt)}
}

// GenesisExtra is the full-pipeline leg: ExportAppStateAndValidators of a real application after every block of
// the engine-R scripts -> ModuleBasics.ValidateGenesis -> InitChain on a fresh application -> first two blocks;
// the custom stores of the new chain must equal those of the old one.
func GenesisExtra(tier string, shard, of int) ExtraResult {
	res := ExtraResult{Notes: map[string]interface{}{}, Exhaustive: true}
	findings := map[string]engine.Finding{}
	add := func(f engine.Finding, label string) {
		f.Op = "export-initchain"
		f.Trace = []string{label}
		if _, ok := findings[f.Sig()]; !ok {
			findings[f.Sig()] = f
		}
	}
	idx := 0
	exports, distinct := 0, map[string]bool{}
	for _, sc := range []*replica.Script{ScriptStorage(false), ScriptStaking(), ScriptTies()} {
		for n := 1; n <= len(sc.Blocks); n++ {
			idx++
			if idx%of != shard {
				continue
			}
			label := fmt.Sprintf("%s after block %d", sc.Name, n)
			engine.Enter("genesis " + label)
			func() {
				w, h := replica.RunBlocks(sc, n)
				defer w.Close()
				var exp servertypes.ExportedApp
				var err error
				func() {
					defer func() {
						if r := recover(); r != nil {
							err = fmt.Errorf("panic: %v", r)
						}
					}()
					exp, err = w.App.ExportAppStateAndValidators(false, nil)
				}()
				if err != nil {
					add(fd("C18", "export-fails", engineNorm(err.Error()), label+": "+err.Error()), label)
					return
				}
				exports++
				var gen map[string]json.RawMessage
				json.Unmarshal(exp.AppState, &gen)
				if err := app.ModuleBasics.ValidateGenesis(w.Enc.Marshaler, w.Enc.TxConfig, gen); err != nil {
					add(fd("C18", "export-rejected-by-validate", "app", label+": "+err.Error()), label)
					return
				}
				home, _ := os.MkdirTemp("", "saomc-home-")
				defer os.RemoveAll(home)
				a2, _ := world.NewApp(dbm.NewMemDB(), home)
				var vals []abci.ValidatorUpdate
				for _, v := range exp.Validators {
					pk, _ := cryptoenc.PubKeyToProto(v.PubKey)
					vals = append(vals, abci.ValidatorUpdate{PubKey: pk, Power: v.Power})
				}
				var perr interface{}
				func() {
					defer func() { perr = recover() }()
					a2.InitChain(abci.RequestInitChain{ChainId: world.ChainID, AppStateBytes: exp.AppState, ConsensusParams: exp.ConsensusParams, Validators: vals, InitialHeight: exp.Height, Time: world.BlockTime(exp.Height - 1)})
					for g := exp.Height; g < exp.Height+2; g++ {
						a2.BeginBlock(abci.RequestBeginBlock{Header: w.Header(g)})
						a2.EndBlock(abci.RequestEndBlock{Height: g})
						a2.Commit()
					}
				}()
				if perr != nil {
					add(fd("C18", "regenesis-halts", engineNorm(fmt.Sprint(perr)), fmt.Sprintf("%s: InitChain / first blocks on the exported state panic: %v", label, perr)), label)
					return
				}
				// compare custom stores: old chain two blocks later vs new chain
				for g := h; g < exp.Height+2; g++ {
					w.App.EndBlock(abci.RequestEndBlock{Height: g})
					w.App.Commit()
					w.App.BeginBlock(abci.RequestBeginBlock{Header: w.Header(g + 1)})
				}
				oldF := w.Snapshot(w.App.NewContext(true, w.Header(exp.Height+1)))
				w2 := &world.World{App: a2, Enc: w.Enc, Actors: w.Actors, Cfg: w.Cfg}
				newF := w2.Snapshot(a2.NewContext(true, w.Header(exp.Height+1)))
				d := storeDiff(oldF, newF)
				for _, cls := range sortedKeys(d) {
					add(fd("C18", "state-not-reproduced", cls, fmt.Sprintf("%s: table %s differs between the chain and the chain re-initialised from its export: %s", label, cls, d[cls])), label)
				}
				distinct[fmt.Sprint(len(gen["order"]), len(gen["node"]), len(gen["model"]))] = true
				if len(res.Samples) < 2 {
					res.Samples = append(res.Samples, label)
				}
			}()
			engine.Leave()
		}
	}
	var sigs []string
	for s := range findings {
		sigs = append(sigs, s)
	}
	sort.Strings(sigs)
	for _, s := range sigs {
		res.Findings = append(res.Findings, findings[s])
	}
	res.Evaluations = exports
	res.Distinct = len(distinct)
	res.Notes["full_pipeline_exports(ExportAppStateAndValidators->InitChain->2 blocks)"] = exports
	return res
}
