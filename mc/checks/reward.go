package checks

import (
	"fmt"
	"math/big"

	"saomc/engine"
	"saomc/world"

	nodetypes "github.com/SaoNetwork/sao/x/node/types"
	ordertypes "github.com/SaoNetwork/sao/x/order/types"
	sdk "github.com/cosmos/cosmos-sdk/types"
)

// C08: block-reward accounting. Every height is executed (node.BeginBlocker at every block).

type rewardGhost struct {
	Minted  sdk.Int            // coins minted to the node account (observed coinbase events)
	Blocks  int64              // blocks in which something was minted
	Ref     map[string]sdk.Dec // pro-rata reference: sum over blocks of mint x capacity / total capacity
	Claimed map[string]sdk.Int // block-reward coins paid out (node -> provider in claim steps)
	MaxStor int64
	Base    sdk.Int // reward counter of the root state
}

func (g *rewardGhost) Clone() engine.Ghost {
	c := &rewardGhost{Minted: g.Minted, Blocks: g.Blocks, Ref: map[string]sdk.Dec{}, Claimed: map[string]sdk.Int{}, MaxStor: g.MaxStor, Base: g.Base}
	for k, v := range g.Ref {
		c.Ref[k] = v
	}
	for k, v := range g.Claimed {
		c.Claimed[k] = v
	}
	return c
}

func (g *rewardGhost) Bytes() []byte {
	return []byte(g.Minted.String() + "|" + fmt.Sprint(g.Blocks) + "|" + ghostBytesDec(g.Ref) + "|" + ghostBytesInt(g.Claimed))
}

type RewardOracle struct{}

func (RewardOracle) InitGhost(w *world.World, ctx sdk.Context) engine.Ghost {
	g := &rewardGhost{Minted: sdk.ZeroInt(), Ref: map[string]sdk.Dec{}, Claimed: map[string]sdk.Int{}, Base: sdk.ZeroInt()}
	// a genesis may start with a non-zero reward counter (scenarios that begin near a halving): the counter must
	// then equal that base plus the coins minted since
	if pool, ok := w.App.NodeKeeper.GetPool(ctx); ok && !pool.TotalReward.Amount.IsNil() {
		g.Base = pool.TotalReward.Amount
	}
	return g
}

func rewardAge(totalReward sdk.Int) uint {
	total, _ := sdk.NewIntFromString("400000000000000")
	remain := total.Sub(totalReward)
	if !remain.IsPositive() {
		return 64
	}
	q := new(big.Int).Quo(total.BigInt(), remain.BigInt())
	if q.Sign() <= 0 {
		return 0
	}
	return uint(q.BitLen() - 1)
}

// mintBound is the reference upper bound of one block's mint, from the pool and parameters before the block.
func mintBound(pool nodetypes.Pool, p nodetypes.Params) (sdk.Int, string) {
	if pool.TotalPledged.Amount.IsZero() {
		return sdk.ZeroInt(), "nothing-pledged"
	}
	if p.BlockReward.Amount.IsZero() {
		return sdk.ZeroInt(), "reward-off"
	}
	r := new(big.Int).Rsh(p.BlockReward.Amount.BigInt(), rewardAge(pool.TotalReward.Amount))
	bound := sdk.NewIntFromBigInt(r)
	why := "block-reward>>age"
	if pool.TotalPledged.Amount.LT(p.Baseline.Amount) {
		apy, err := sdk.NewDecFromStr(p.AnnualPercentageYield)
		if err == nil {
			b := sdk.NewDecFromInt(pool.TotalPledged.Amount).Mul(apy).QuoInt64(p.HalvingPeriod / 2).TruncateInt()
			if b.LT(bound) {
				bound, why = b, "baseline-formula"
			}
		}
	}
	return bound, why
}

func claimableOf(pool nodetypes.Pool, p nodetypes.Pledge) sdk.Dec {
	c := p.Reward.Amount
	if p.TotalStorage > 0 {
		c = c.Add(pool.AccRewardPerByte.Amount.MulInt64(p.TotalStorage).Sub(p.RewardDebt.Amount))
	}
	return c
}

func (RewardOracle) Step(si *engine.StepInfo) []engine.Finding {
	var out []engine.Finding
	if si.Post == nil {
		return nil
	}
	w := si.W
	pre, post := snapOf(w, si.PreCtx, si.Pre), snapOf(w, si.PostCtx, si.Post)
	g := si.Post.G.(*rewardGhost)
	node := world.ModAddr(nodetypes.ModuleName).String()
	minted := sdk.ZeroInt()
	for _, f := range si.Res.Flows {
		if f.From == "" {
			if f.To != node {
				out = append(out, fd("C08", "mint-to-other-account", "", fmt.Sprintf("%s coins minted to %s", f.Amt, f.To)))
			}
			minted = minted.Add(f.Amt)
		}
		if f.To == "" && !f.Amt.IsZero() {
			out = append(out, fd("C08", "burn", "", fmt.Sprintf("%s coins burned from %s", f.Amt, f.From)))
		}
	}
	dSupply := ledgerOf(w, si.PostCtx, si.Post).Supply.Sub(ledgerOf(w, si.PreCtx, si.Pre).Supply)
	if !dSupply.Equal(minted) {
		out = append(out, fd("C08", "supply-vs-mint-events", "", fmt.Sprintf("supply changed by %s, coinbase events sum to %s", dSupply, minted)))
	}
	dCounter := post.Pool.TotalReward.Amount.Sub(pre.Pool.TotalReward.Amount)
	if !dCounter.Equal(minted) {
		out = append(out, fd("C08", "reward-counter-vs-minted", cmp(dCounter.GT(minted)), fmt.Sprintf("Pool.TotalReward changed by %s, minted %s", dCounter, minted)))
	}
	if si.Op.EndTo == 0 {
		if !minted.IsZero() {
			out = append(out, fd("C08", "mint-outside-begin-block", "", fmt.Sprintf("%s minted by %s", minted, si.Op.Label)))
		}
	} else {
		// one block: [end-blockers at h] then begin-blocker of h+1, which mints from the pool as left by block h
		params := w.App.NodeKeeper.GetParams(si.PreCtx)
		params.AnnualPercentageYield = w.App.NodeKeeper.AnnualPercentageYield(si.PreCtx)
		bound, why := mintBound(pre.Pool, params)
		if si.Op.EndTo == pre.H { // single block (reward scenarios never jump)
			if minted.GT(bound) {
				out = append(out, fd("C08", "mint-exceeds-schedule", why, fmt.Sprintf("block %d minted %s, bound %s (%s); pledged %s baseline %s", post.H, minted, bound, why, pre.Pool.TotalPledged.Amount, params.Baseline.Amount)))
			}
			if minted.IsPositive() {
				g.Blocks++
				T := pre.Pool.TotalStorage
				for _, sp := range sortedKeys(pre.Pledges) {
					p := pre.Pledges[sp]
					if p.TotalStorage > g.MaxStor {
						g.MaxStor = p.TotalStorage
					}
					if T > 0 && p.TotalStorage > 0 {
						share := sdk.NewDecFromInt(minted).MulInt64(p.TotalStorage).QuoInt64(T)
						if v, ok := g.Ref[sp]; ok {
							g.Ref[sp] = v.Add(share)
						} else {
							g.Ref[sp] = share
						}
					}
				}
			}
		}
	}
	g.Minted = g.Minted.Add(minted)
	// claims
	if si.Op.Kind == "claim" {
		claimer := si.Op.Msg.GetSigners()[0].String()
		paid := sdk.ZeroInt()
		for _, f := range si.Res.Flows {
			if f.From == node && f.Amt.IsPositive() {
				if f.To != claimer {
					out = append(out, fd("C08", "reward-paid-to-other-than-claimer", "", fmt.Sprintf("node account paid %s to %s during a claim by %s", f.Amt, w.NameOf(f.To), w.NameOf(claimer))))
				} else {
					paid = paid.Add(f.Amt)
				}
			}
		}
		if pp, ok := pre.Pledges[claimer]; ok {
			whole := claimableOf(pre.Pool, pp).TruncateInt()
			debt := sdk.ZeroInt()
			if d, ok := pre.Debts[claimer]; ok {
				debt = d
			}
			want := whole.Sub(debt)
			if want.IsNegative() {
				want = sdk.ZeroInt()
			}
			if !paid.Equal(want) {
				out = append(out, fd("C08", "claim-amount", cmp(paid.GT(want)), fmt.Sprintf("%s claimed: paid %s block-reward coins, whole-coin part of its accrued share %s less recorded debt %s = %s", w.NameOf(claimer), paid, whole, debt, want)))
			}
		}
		// reward coins that were used to repay the claimer's recorded collateral debt are spent as well
		debtPre, debtPost := sdk.ZeroInt(), sdk.ZeroInt()
		if d, ok := pre.Debts[claimer]; ok {
			debtPre = d
		}
		if d, ok := post.Debts[claimer]; ok {
			debtPost = d
		}
		fromWorker := sdk.ZeroInt()
		for _, f := range si.Res.Flows {
			if isModule(f.From) == "market" && f.To == node {
				fromWorker = fromWorker.Add(f.Amt)
			}
		}
		spent := paid
		if repaid := debtPre.Sub(debtPost).Sub(fromWorker); repaid.IsPositive() {
			spent = spent.Add(repaid)
		}
		if v, ok := g.Claimed[claimer]; ok {
			g.Claimed[claimer] = v.Add(spent)
		} else {
			g.Claimed[claimer] = spent
		}
		for _, sp := range sortedKeys(pre.Pledges) {
			if sp == claimer {
				continue
			}
			a, _ := ptr(pre.Pledges[sp]).Marshal()
			b, _ := ptr(post.Pledges[sp]).Marshal()
			if string(a) != string(b) {
				out = append(out, fd("C08", "claim-touches-other-provider", "", fmt.Sprintf("claim by %s changed the pledge record of %s", w.NameOf(claimer), w.NameOf(sp))))
			}
		}
	} else {
		// outside claims the node account pays rewards to nobody (collateral flows are C07's)
	}
	return out
}

func (RewardOracle) State(w *world.World, ctx sdk.Context, s *engine.State) []engine.Finding {
	var out []engine.Finding
	sn := snapOf(w, ctx, s)
	g := s.G.(*rewardGhost)
	if !sn.Pool.TotalReward.Amount.Equal(g.Minted.Add(g.Base)) {
		out = append(out, fd("C08", "reward-counter-vs-minted-total", cmp(sn.Pool.TotalReward.Amount.GT(g.Minted)), fmt.Sprintf("Pool.TotalReward=%s, coins actually minted=%s", sn.Pool.TotalReward.Amount, g.Minted)))
	}
	sum := sdk.ZeroDec()
	tolUnit := sdk.NewDecWithPrec(2, 18).MulInt64(g.Blocks + 1)
	for _, sp := range sortedKeys(sn.Pledges) {
		p := sn.Pledges[sp]
		c := claimableOf(sn.Pool, p)
		claimed := sdk.ZeroInt()
		if v, ok := g.Claimed[sp]; ok {
			claimed = v
		}
		have := c.Add(sdk.NewDecFromInt(claimed))
		sum = sum.Add(have)
		ref := sdk.ZeroDec()
		if v, ok := g.Ref[sp]; ok {
			ref = v
		}
		tol := tolUnit.MulInt64(g.MaxStor + 1)
		if have.Sub(ref).Abs().GT(tol) {
			out = append(out, fd("C08", "share-not-pro-rata", cmp(have.GT(ref)), fmt.Sprintf("%s: claimed %s + claimable %s = %s, capacity x blocks share of the minted coins = %s", w.NameOf(sp), claimed, c, have, ref)))
		}
		if c.IsNegative() {
			out = append(out, fd("C08", "negative-claimable", "", fmt.Sprintf("%s claimable %s", w.NameOf(sp), c)))
		}
	}
	tolSum := tolUnit.MulInt64(g.MaxStor + 1).MulInt64(int64(len(sn.Pledges)) + 1)
	if sum.GT(sdk.NewDecFromInt(g.Minted).Add(tolSum)) {
		out = append(out, fd("C08", "claimed-plus-claimable-exceeds-minted", "", fmt.Sprintf("sum over providers of claimed + claimable = %s, minted = %s", sum, g.Minted)))
	}
	return out
}

func (RewardOracle) NonTrivial(w *world.World, ctx sdk.Context, s *engine.State) bool {
	g := s.G.(*rewardGhost)
	return g.Blocks > 0 && len(g.Ref) > 0
}

type RewardOpts struct {
	ID    string
	Cfg   world.Config
	Depth int
	Store bool
	Debt  bool // root: S1 stores a renewed shard whose collateral top-up it could not pay (recorded pledge debt)
}

func RewardScenario(o RewardOpts) *engine.Scenario {
	sps := []int{world.S1, world.S2}
	sc := &engine.Scenario{ID: o.ID, Cfg: o.Cfg, Depth: o.Depth, Rewards: true, Oracle: RewardOracle{}}
	sc.Roots = []engine.Root{{Name: "W0", Setup: func(w *world.World) []engine.SetupStep {
		st := SetupBase(w, []int{world.O}, []int{world.G}, nil, 0)
		for _, s := range sps {
			a := w.A(s)
			st = append(st, fixed(Tx("create", "create("+a.Name+")", &nodetypes.MsgCreate{Creator: a.S()})),
				fixed(Tx("reset", "reset("+a.Name+",full)", &nodetypes.MsgReset{Creator: a.S(), Status: FullStatus})))
		}
		if o.Debt {
			s1 := w.A(world.S1)
			st = append(st,
				fixed(Tx("addv", "addv(S1,setup)", &nodetypes.MsgAddVstorage{Creator: s1.S(), Size_: 10_000_000})),
				fixed(Tx("store", "store(setup)", StoreMsg(w, StoreP{Signer: world.O, Relayer: world.G, Gateway: world.G, DataId: world.Data1, CommitId: world.Data1, Size: 1_000_000, Replica: 1, Duration: 3600, Timeout: 100}))),
				CompleteNth(1, 0),
				func(w *world.World, ctx sdk.Context) engine.Op {
					return SendOp(w, world.S1, world.T, w.Bal(ctx, s1.Addr).SubRaw(30), "drain(setup)")
				},
				fixed(Tx("renew", "renew(setup)", RenewMsg(w, world.O, world.G, world.G, 7200, 100, world.Data1))))
		}
		return st
	}}}
	sc.Ops = func(w *world.World, ctx sdk.Context, s *engine.State) []engine.Op {
		var out []engine.Op
		a := w.App
		for i, sx := range sps {
			sp := w.A(sx)
			addSize := uint64(10_000_000 * (i + 1))
			out = append(out, Tx("addv", fmt.Sprintf("addv(%s,%d)", sp.Name, addSize), &nodetypes.MsgAddVstorage{Creator: sp.S(), Size_: addSize}))
			if p, ok := a.NodeKeeper.GetPledge(ctx, sp.S()); ok {
				for _, sz := range uniq64([]int64{1_999_999, p.TotalStorage - p.UsedStorage}) {
					if sz > 0 {
						out = append(out, Tx("removev", fmt.Sprintf("removev(%s,%d)", sp.Name, sz), &nodetypes.MsgRemoveVstorage{Creator: sp.S(), Size_: uint64(sz)}))
					}
				}
				out = append(out, Tx("claim", "claim("+sp.Name+")", &nodetypes.MsgClaimReward{Creator: sp.S()}))
			}
		}
		if o.Store {
			if _, ok := a.ModelKeeper.GetMetadata(ctx, world.Data1); !ok {
				out = append(out, Tx("store", "store(11)", StoreMsg(w, StoreP{Signer: world.O, Relayer: world.G, Gateway: world.G, DataId: world.Data1, CommitId: world.Data1, Size: 1_000_000, Replica: 1, Duration: 3600, Timeout: 100})))
			} else {
				out = append(out, Tx("terminate", "terminate(11)", TerminateMsg(w, world.O, world.G, world.G, world.Data1)))
			}
			for _, ord := range a.OrderKeeper.GetAllOrder(ctx) {
				for _, sid := range ord.Shards {
					if sh, ok := a.OrderKeeper.GetShard(ctx, sid); ok && sh.Status == ordertypes.ShardWaiting {
						out = append(out, CompleteOp(w, ord.Id, sh))
					}
				}
			}
		}
		out = append(out, End(ctx.BlockHeight()), RegenesisOp())
		return out
	}
	return sc
}
