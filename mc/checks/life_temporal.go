package checks

import (
	"bytes"
	"fmt"
	"strings"

	"saomc/engine"
	"saomc/world"

	modelkeeper "github.com/SaoNetwork/sao/x/model/keeper"
	modeltypes "github.com/SaoNetwork/sao/x/model/types"
	ordertypes "github.com/SaoNetwork/sao/x/order/types"
	saokeeper "github.com/SaoNetwork/sao/x/sao/keeper"
	saotypes "github.com/SaoNetwork/sao/x/sao/types"
	sdk "github.com/cosmos/cosmos-sdk/types"
)

// ---------------------------------------------------------------------------------------------
// C05: full refund and clean rollback when storage never started

type pendInfo struct {
	Payer      string
	Amount     string
	MetaBefore []byte // marshalled metadata before the store, nil = did not exist
	Data       string
}

func hasCompletedShard(s *Snap, o ordertypes.Order) bool {
	for _, id := range o.Shards {
		if sh, ok := s.Shards[id]; ok && sh.Status == ordertypes.ShardCompleted {
			return true
		}
	}
	return false
}

func C05Step(si *engine.StepInfo, pre, post *Snap, g *lifeGhost) []engine.Finding {
	var out []engine.Finding
	w := si.W
	// track: orders created in this step
	for _, oid := range post.OrderIds {
		if _, old := pre.Orders[oid]; old {
			continue
		}
		o := post.Orders[oid]
		if o.Operation == 3 {
			continue
		}
		pi := pendInfo{Payer: payerOf(w, si.PostCtx, o), Amount: o.Amount.Amount.String(), Data: o.DataId}
		if m, ok := pre.Metas[o.DataId]; ok {
			pi.MetaBefore, _ = m.Marshal()
		}
		g.Pending[oid] = pi
	}
	// orders that got their first completed shard leave the scope of C05
	for oid := range g.Pending {
		if o, ok := post.Orders[oid]; ok && (o.Status == ordertypes.OrderCompleted || hasCompletedShard(post, o)) {
			delete(g.Pending, oid)
		}
	}
	// orders that ended without a completed shard
	for _, oid := range sortedU64(g.Pending) {
		if _, still := post.Orders[oid]; still {
			continue
		}
		pi := g.Pending[oid]
		delete(g.Pending, oid)
		po, had := pre.Orders[oid]
		if !had {
			continue
		}
		if si.Op.Kind == "terminate" {
			continue // owner-requested deletion of the model is outside C05 (not cancel/timeout)
		}
		// (1) full refund to the payer
		refunded := sdk.ZeroInt()
		for _, f := range si.Res.Flows {
			if isModule(f.From) == ordertypes.ModuleName && f.To == pi.Payer {
				refunded = refunded.Add(f.Amt)
			}
		}
		if refunded.String() != pi.Amount {
			out = append(out, fd("C05", "refund-not-full", cmp(refunded.GT(po.Amount.Amount)), fmt.Sprintf("order %d charged %s to %s, refunded %s when it ended without a completed shard", oid, pi.Amount, w.NameOf(pi.Payer), refunded)))
		}
		// (2) all shards of the order are gone
		for _, sid := range post.ShardIds {
			if sh := post.Shards[sid]; sh.OrderId == oid {
				out = append(out, fd("C05", "shard-left-behind", shardStatusName(sh.Status), fmt.Sprintf("order %d is gone but shard %d (status %s, provider %s) still names it", oid, sid, shardStatusName(sh.Status), w.NameOf(sh.Sp))))
			}
		}
		// the order may have ended because its model reached the scheduled end of its paid lifetime in this very step
		// (the model end-blocker cancels an in-flight order before it removes the model): then the shards of the
		// committed version expire in the same block and the model is gone, not restored
		modelExpired := false
		if pm, ok := pre.Metas[pi.Data]; ok && si.Op.EndTo > 0 {
			if end := int64(pm.CreatedAt + pm.Duration); end >= pre.H && end <= si.Op.EndTo {
				_, still := post.Metas[pi.Data]
				modelExpired = !still
			}
		}
		// (3) no provider's pledge record changed in the step
		for _, sp := range sortedKeys(pre.Pledges) {
			if modelExpired {
				break
			}
			a, _ := ptr(pre.Pledges[sp]).Marshal()
			b, _ := ptr(post.Pledges[sp]).Marshal()
			if !bytes.Equal(a, b) {
				out = append(out, fd("C05", "provider-pledge-changed", "", fmt.Sprintf("pledge record of %s changed when order %d (never stored) ended", w.NameOf(sp), oid)))
			}
		}
		// (4) the model is back at its previous committed version, or gone together with its alias
		m, exists := post.Metas[pi.Data]
		if pi.MetaBefore == nil {
			if exists {
				out = append(out, fd("C05", "model-not-removed", "", fmt.Sprintf("model %s was created by order %d, which ended unstored, but still exists", pi.Data, oid)))
			}
			for _, k := range sortedKeys(post.Models) {
				if post.Models[k] == pi.Data {
					out = append(out, fd("C05", "alias-not-removed", "", fmt.Sprintf("alias %q of the rolled-back model %s still exists", k, pi.Data)))
				}
			}
		} else if !modelExpired {
			if !exists {
				out = append(out, fd("C05", "model-lost-on-rollback", "", fmt.Sprintf("model %s existed before update order %d; it is gone after the rollback", pi.Data, oid)))
			} else {
				var before modeltypes.Metadata
				before.Unmarshal(pi.MetaBefore)
				if d := metaDiff(before, m); d != "" {
					out = append(out, fd("C05", "model-not-restored", d, fmt.Sprintf("model %s after rollback of order %d differs from its state before the update in: %s", pi.Data, oid, d)))
				}
				// lifetime: back to the end of the longest paid shard of the committed versions (a shard of an
				// older order may legitimately have completed while the update was in flight)
				want := int64(0)
				for sid, until := range g.PaidUntil {
					if g.ShardData[sid] == pi.Data && until > want {
						want = until
					}
				}
				if end := int64(m.CreatedAt + m.Duration); want > 0 && end != want {
					out = append(out, fd("C05", "model-lifetime-not-reset", cmp(end > want), fmt.Sprintf("model %s ends at %d after rollback of order %d; its longest paid shard ends at %d", pi.Data, end, oid, want)))
				}
			}
		}
		// (5) no stale expiry entry names the data id
		var end uint64
		if exists {
			end = m.CreatedAt + m.Duration
		}
		for _, h := range sortedU64(post.ExpData) {
			if containsS(post.ExpData[h], pi.Data) && (!exists || h != end) {
				out = append(out, fd("C05", "stale-expiry-entry", cmpb(exists, "model-exists", "model-gone"), fmt.Sprintf("ExpiredData[%d] still names %s after order %d was rolled back (model end: %d, exists: %v)", h, pi.Data, oid, end, exists)))
			}
		}
	}
	return out
}

func cmpb(b bool, t, f string) string {
	if b {
		return t
	}
	return f
}

func ptr[T any](v T) *T { return &v }

func metaDiff(a, b modeltypes.Metadata) string {
	var d []string
	if a.Owner != b.Owner {
		d = append(d, "owner")
	}
	if a.Commit != b.Commit {
		d = append(d, "commit")
	}
	if fmt.Sprint(a.Commits) != fmt.Sprint(b.Commits) {
		d = append(d, "commits")
	}
	if fmt.Sprint(a.Orders) != fmt.Sprint(b.Orders) {
		d = append(d, "orders")
	}
	if a.OrderId != b.OrderId {
		d = append(d, "orderId")
	}
	if a.Status != b.Status {
		d = append(d, "status")
	}
	if a.Cid != b.Cid {
		d = append(d, "cid")
	}
	if a.CreatedAt != b.CreatedAt {
		d = append(d, "createdAt")
	}
	if fmt.Sprint(a.ReadonlyDids, a.ReadwriteDids) != fmt.Sprint(b.ReadonlyDids, b.ReadwriteDids) {
		d = append(d, "permissions")
	}
	if a.Alias != b.Alias || a.GroupId != b.GroupId {
		d = append(d, "alias")
	}
	return strings.Join(d, ",")
}

// ---------------------------------------------------------------------------------------------
// C11: retention and expiry

func C11Step(si *engine.StepInfo, pre, post *Snap, g *lifeGhost) []engine.Finding {
	var out []engine.Finding
	h := pre.H
	// closures allowed by the statement: terminate, force-push replacing the version, migration hand-over
	closing := si.Op.Kind == "terminate"
	if si.Op.Kind == "complete" {
		if m, ok := si.Op.Msg.(*saotypes.MsgComplete); ok {
			if o, ok := pre.Orders[m.OrderId]; ok && o.Operation == 2 {
				closing = true // completing a force-push terminates the replaced version
			}
		}
	}
	for _, sid := range post.ShardIds {
		sh := post.Shards[sid]
		psh, had := pre.Shards[sid]
		if sh.Status == ordertypes.ShardCompleted && (!had || psh.Status != ordertypes.ShardCompleted) {
			// completed in this step
			if had && psh.Status == ordertypes.ShardMigrating {
				// hand-over: inherits the paid term of the shard it replaces
				var oldId uint64
				found := false
				for _, oid := range pre.ShardIds {
					o := pre.Shards[oid]
					if o.Sp == psh.From && o.Status == ordertypes.ShardCompleted {
						if _, gone := post.Shards[oid]; !gone {
							if _, open := g.PaidUntil[oid]; open {
								oldId, found = oid, true
							}
						}
					}
				}
				if found {
					g.PaidUntil[sid] = g.PaidUntil[oldId]
					g.ShardData[sid] = g.ShardData[oldId]
					delete(g.PaidUntil, oldId)
					delete(g.ShardData, oldId)
				}
			} else if o, ok := pre.Orders[sh.OrderId]; ok {
				g.PaidUntil[sid] = h + int64(o.Duration)
				g.ShardData[sid] = o.DataId
			}
		}
		if had && len(sh.RenewInfos) > len(psh.RenewInfos) && si.Op.Kind == "renew" {
			if _, open := g.PaidUntil[sid]; open {
				for _, r := range sh.RenewInfos[len(psh.RenewInfos):] {
					g.PaidUntil[sid] += int64(r.Duration)
				}
			}
		}
	}
	if closing {
		for sid := range g.PaidUntil {
			if _, ok := post.Shards[sid]; !ok {
				delete(g.PaidUntil, sid)
				delete(g.ShardData, sid)
			}
		}
	}
	if si.Op.EndTo > 0 {
		// shards whose paid term ended at or before the processed height must be released by this step
		for _, sid := range sortedU64(g.PaidUntil) {
			if g.PaidUntil[sid] <= si.Op.EndTo {
				if sh, ok := post.Shards[sid]; ok {
					out = append(out, fd("C11", "shard-not-released-at-end-of-term", "", fmt.Sprintf("shard %d was paid until %d; after the end-block of %d it still exists (status %s, ends %d)", sid, g.PaidUntil[sid], si.Op.EndTo, shardStatusName(sh.Status), sh.CreatedAt+sh.Duration)))
				}
				delete(g.PaidUntil, sid)
				delete(g.ShardData, sid)
			}
		}
	}
	return out
}

func C11State(s *Snap, g *lifeGhost) []engine.Finding {
	var out []engine.Finding
	openData := map[string]bool{}
	for _, sid := range sortedU64(g.PaidUntil) {
		until := g.PaidUntil[sid]
		d := g.ShardData[sid]
		if s.H <= until {
			openData[d] = true
			sh, ok := s.Shards[sid]
			if !ok {
				out = append(out, fd("C11", "shard-gone-before-end-of-term", "", fmt.Sprintf("shard %d is paid until %d but does not exist at height %d", sid, until, s.H)))
				continue
			}
			if sh.Status != ordertypes.ShardCompleted {
				out = append(out, fd("C11", "shard-not-completed-during-term", shardStatusName(sh.Status), fmt.Sprintf("shard %d is paid until %d but has status %s", sid, until, shardStatusName(sh.Status))))
			}
			end := int64(sh.CreatedAt + sh.Duration)
			for _, r := range sh.RenewInfos {
				end += int64(r.Duration)
			}
			if end != until {
				out = append(out, fd("C11", "recorded-term-differs-from-paid-term", cmp(end > until), fmt.Sprintf("shard %d: records say it ends at %d, paid term ends at %d", sid, end, until)))
			}
			if _, ok := s.Metas[d]; !ok {
				out = append(out, fd("C11", "model-gone-while-paid-shard-remains", "", fmt.Sprintf("model %s does not exist at height %d while shard %d is paid until %d", d, s.H, sid, until)))
			}
		}
	}
	// a model exists only while a paid shard of it is open or one of its orders is in flight
	for _, d := range sortedKeys(s.Metas) {
		if openData[d] {
			continue
		}
		inflight := false
		for _, oid := range s.OrderIds {
			o := s.Orders[oid]
			if o.DataId == d && o.Status != ordertypes.OrderCompleted && o.Operation != 3 {
				inflight = true
			}
		}
		m := s.Metas[d]
		if end := m.CreatedAt + m.Duration; !inflight && int64(end) == s.H && containsS(s.ExpData[end], d) {
			continue // its deletion is scheduled for the end-block of the block in progress
		}
		if !inflight {
			out = append(out, fd("C11", "model-outlives-its-last-paid-shard", "", fmt.Sprintf("model %s exists at height %d with no paid shard and no order in flight", d, s.H)))
		}
	}
	return out
}

// ---------------------------------------------------------------------------------------------
// C12: timeout progress

func fullyStored(s *Snap, o ordertypes.Order) bool {
	if o.Status != ordertypes.OrderCompleted {
		return false
	}
	n := int32(0)
	for _, id := range o.Shards {
		if sh, ok := s.Shards[id]; ok && sh.Status == ordertypes.ShardCompleted {
			n++
		}
	}
	return n >= o.Replica
}

func scheduledTimeout(s *Snap, oid uint64) (int64, bool) {
	for _, h := range sortedU64(s.Timeout) {
		if int64(h) >= s.H && contains(s.Timeout[h], oid) {
			return int64(h), true
		}
	}
	return 0, false
}

func C12State(s *Snap, g *lifeGhost) []engine.Finding {
	var out []engine.Finding
	for _, oid := range s.OrderIds {
		o := s.Orders[oid]
		if o.Operation == 3 || o.Status == ordertypes.OrderPending {
			continue // pending orders have not been handed to providers yet
		}
		if fullyStored(s, o) {
			continue
		}
		// unresolved order: handed to providers but not fully stored
		_, sched := scheduledTimeout(s, oid)
		if !sched {
			disc := "other"
			// the end-of-life guard of HandleTimeoutOrder: (check height) + timeout >= created + duration
			if o.Timeout > 0 && uint64(s.H-1) >= o.CreatedAt+o.Timeout {
				k := (uint64(s.H-1) - o.CreatedAt) / o.Timeout
				if (k+1)*o.Timeout >= o.Duration {
					disc = "end-of-life-guard"
				}
			}
			out = append(out, fd("C12", "unresolved-order-without-timeout-entry", disc, fmt.Sprintf("order %d (status %s, replica %d, timeout %d, created %d, duration %d) is not fully stored and no timeout entry at height >= %d names it", oid, statusName(o.Status), o.Replica, o.Timeout, o.CreatedAt, o.Duration, s.H)))
		}
		// give-up bound: a check that finds no replacement after MaxTries intervals gives up; replacements are
		// distinct from every provider already tried, so at most (#providers) checks can find one
		bound := (saokeeper.MaxTries + uint64(len(s.Pledges)) + 2) * o.Timeout
		handed := o.CreatedAt // an order picked up later by MsgReady is "handed to providers" only then
		if h, ok := g.Handed[oid]; ok {
			handed = uint64(h)
		}
		if o.Timeout > 0 && sched && uint64(s.H-1) > handed+bound && uint64(s.H-1)+o.Timeout < o.CreatedAt+o.Duration {
			out = append(out, fd("C12", "unresolved-beyond-give-up-bound", "", fmt.Sprintf("order %d handed to providers at %d with timeout %d is still unresolved at height %d (> hand-over + (10 + %d providers + 2) intervals)", oid, handed, o.Timeout, s.H, len(s.Pledges))))
		}
	}
	return out
}

func C12Step(si *engine.StepInfo, pre, post *Snap) []engine.Finding {
	var out []engine.Finding
	if si.Op.EndTo == 0 {
		return nil
	}
	// partial give-up: "the unfinished part is cancelled and its price refunded" — the part, not more
	for _, oid := range post.OrderIds {
		o, ok := pre.Orders[oid]
		q := post.Orders[oid]
		if !ok || o.Operation == 3 || q.Replica >= o.Replica || o.Status != ordertypes.OrderCompleted || q.Status != ordertypes.OrderCompleted {
			continue
		}
		stored := int32(0)
		for _, id := range q.Shards {
			if sh, ok := post.Shards[id]; ok && sh.Status == ordertypes.ShardCompleted {
				stored++
			}
		}
		// completed shards of the order in the pre-state that expired in this very step do not count as given up
		expired := false
		for _, id := range o.Shards {
			if sh, ok := pre.Shards[id]; ok && sh.Status == ordertypes.ShardCompleted && int64(sh.CreatedAt+sh.Duration) <= si.Op.EndTo {
				expired = true
			}
		}
		if expired {
			continue
		}
		if q.Replica != stored {
			out = append(out, fd("C12", "partial-give-up-wrong-replica-count", cmp(q.Replica > stored), fmt.Sprintf("order %d: the timeout mechanism reduced the replica count from %d to %d, but %d replicas are stored", oid, o.Replica, q.Replica, stored)))
		}
		if want := quote(q); q.Replica == stored && !q.Amount.Amount.Equal(want) {
			out = append(out, fd("C12", "partial-give-up-wrong-amount", cmp(q.Amount.Amount.GT(want)), fmt.Sprintf("order %d: after giving up %d replica(s) the order's amount is %s; %d stored replica(s) cost %s", oid, o.Replica-q.Replica, q.Amount.Amount, stored, want)))
		}
		wantRefund := o.Amount.Amount.Sub(quote(ordertypes.Order{Size_: q.Size_, Replica: stored, Duration: q.Duration}))
		got := sdk.ZeroInt()
		payer := payerOf(si.W, si.PreCtx, o)
		for _, f := range si.Res.Flows {
			if isModule(f.From) != "" && f.To == payer && isModule(f.To) == "" {
				got = got.Add(f.Amt)
			}
		}
		if !got.Equal(wantRefund) && len(pre.Orders) == 1 {
			out = append(out, fd("C12", "partial-give-up-wrong-refund", cmp(got.GT(wantRefund)), fmt.Sprintf("order %d: %d of %d replicas given up; refunded %s, the price of the unfulfilled replicas is %s", oid, o.Replica-stored, o.Replica, got, wantRefund)))
		}
	}
	// orders examined by the timeout mechanism in this step
	for _, hh := range sortedU64(pre.Timeout) {
		if int64(hh) < pre.H || int64(hh) > si.Op.EndTo {
			continue
		}
		for _, oid := range pre.Timeout[hh] {
			o, ok := pre.Orders[oid]
			if !ok || !fullyStored(pre, o) {
				continue
			}
			// already fully stored: the mechanism must not change its amount, replica, status, its completed
			// shards, a migration in progress, or anybody's balance
			q, still := post.Orders[oid]
			expiring := false
			for _, id := range o.Shards {
				if sh, ok := pre.Shards[id]; ok && sh.Status == ordertypes.ShardCompleted && int64(sh.CreatedAt+sh.Duration) <= si.Op.EndTo {
					expiring = true
				}
			}
			if expiring {
				continue
			}
			if !still {
				out = append(out, fd("C12", "late-touch", "order-removed", fmt.Sprintf("order %d was fully stored; the timeout check at %d removed it", oid, hh)))
				continue
			}
			if !q.Amount.Amount.Equal(o.Amount.Amount) || q.Replica != o.Replica || q.Status != o.Status {
				out = append(out, fd("C12", "late-touch", "order-altered", fmt.Sprintf("order %d was fully stored; the timeout check at %d changed amount/replica/status (%s/%d/%d -> %s/%d/%d)", oid, hh, o.Amount.Amount, o.Replica, o.Status, q.Amount.Amount, q.Replica, q.Status)))
			}
			for _, id := range o.Shards {
				psh, ok := pre.Shards[id]
				if !ok {
					continue
				}
				_, kept := post.Shards[id]
				if psh.Status == ordertypes.ShardCompleted && !kept {
					out = append(out, fd("C12", "late-touch", "completed-shard-removed", fmt.Sprintf("order %d was fully stored; the timeout check at %d removed completed shard %d", oid, hh, id)))
				}
				if psh.Status == ordertypes.ShardMigrating && !kept {
					out = append(out, fd("C12", "late-touch", "pending-migration-removed", fmt.Sprintf("order %d was fully stored; the timeout check at %d removed shard %d, a migration in progress from %s to %s", oid, hh, id, si.W.NameOf(psh.From), si.W.NameOf(psh.Sp))))
				}
			}
			for _, f := range si.Res.Flows {
				if m := isModule(f.From); (m == ordertypes.ModuleName || m == "market") && isModule(f.To) == "" && !f.Amt.IsZero() {
					out = append(out, fd("C12", "late-touch", "refund-after-full-storage", fmt.Sprintf("order %d was fully stored; step paid %s from %s escrow to %s", oid, f.Amt, m, si.W.NameOf(f.To))))
				}
			}
		}
	}
	return out
}

// ---------------------------------------------------------------------------------------------
// C16: version linearity and identifier uniqueness

func C16Step(si *engine.StepInfo, pre, post *Snap, g *lifeGhost) []engine.Finding {
	var out []engine.Finding
	for _, oid := range post.OrderIds {
		if _, old := pre.Orders[oid]; !old {
			if oid <= g.MaxOrder && g.SeenOrder {
				out = append(out, fd("C16", "order-id-reused-or-not-increasing", "", fmt.Sprintf("new order id %d, largest id seen before %d", oid, g.MaxOrder)))
			}
			if oid > g.MaxOrder || !g.SeenOrder {
				g.MaxOrder, g.SeenOrder = oid, true
			}
		}
	}
	for _, sid := range post.ShardIds {
		if _, old := pre.Shards[sid]; !old {
			if sid <= g.MaxShard && g.SeenShard {
				out = append(out, fd("C16", "shard-id-reused-or-not-increasing", "", fmt.Sprintf("new shard id %d, largest id seen before %d", sid, g.MaxShard)))
			}
			if sid > g.MaxShard || !g.SeenShard {
				g.MaxShard, g.SeenShard = sid, true
			}
		}
	}
	// an accepted update / force-push names exactly the latest committed version as its base
	if st, ok := si.Op.Msg.(*saotypes.MsgStore); ok {
		d := st.Proposal.DataId
		if pm, existed := pre.Metas[d]; existed {
			latest := ""
			if len(pm.Commits) > 0 {
				latest = modelkeeper.CommitFromVersion(pm.Commits[len(pm.Commits)-1])
			}
			base := st.Proposal.CommitId
			if i := strings.Index(base, "|"); i >= 0 {
				base = base[:i]
			}
			if base != latest {
				disc := "other"
				switch {
				case base == "":
					disc = "empty-base"
				case latest != "" && strings.Contains(latest, base):
					disc = "proper-substring-of-latest"
				case len(pm.Commits) == 0:
					disc = "no-committed-version-yet"
				}
				out = append(out, fd("C16", "update-accepted-on-wrong-base", disc, fmt.Sprintf("update of %s accepted with base %q; latest committed version is %q", d, base, latest)))
			}
			if len(pm.Commits) == 0 || pm.Status != modeltypes.MetaComplete {
				out = append(out, fd("C16", "update-accepted-while-another-in-flight", "", fmt.Sprintf("update of %s accepted while the model had status %d", d, pm.Status)))
			}
		}
	}
	// history growth on completion
	for _, d := range sortedKeys(post.Metas) {
		pm, existed := pre.Metas[d]
		qm := post.Metas[d]
		if !existed || fmt.Sprint(pm.Commits) == fmt.Sprint(qm.Commits) {
			continue
		}
		mc, isComplete := si.Op.Msg.(*saotypes.MsgComplete)
		if !isComplete {
			out = append(out, fd("C16", "history-changed-outside-completion", "", fmt.Sprintf("Commits of %s changed from %v to %v", d, short(pm.Commits), short(qm.Commits))))
			continue
		}
		o := pre.Orders[mc.OrderId]
		switch o.Operation {
		case 1:
			if len(qm.Commits) != len(pm.Commits)+1 || !prefixEq(pm.Commits, qm.Commits) || modelkeeper.CommitFromVersion(qm.Commits[len(qm.Commits)-1]) != o.Commit {
				out = append(out, fd("C16", "history-not-appended", "", fmt.Sprintf("completion of update order %d changed Commits of %s from %v to %v", o.Id, d, short(pm.Commits), short(qm.Commits))))
			}
		case 2:
			if len(pm.Commits) == 0 || len(qm.Commits) != len(pm.Commits) || !prefixEq(pm.Commits[:len(pm.Commits)-1], qm.Commits) || modelkeeper.CommitFromVersion(qm.Commits[len(qm.Commits)-1]) != o.Commit {
				out = append(out, fd("C16", "force-push-not-replace-last", "", fmt.Sprintf("completion of force-push order %d changed Commits of %s from %v to %v", o.Id, d, short(pm.Commits), short(qm.Commits))))
			}
		}
	}
	return out
}

func short(l []string) []string {
	var out []string
	for _, c := range l {
		c = modelkeeper.CommitFromVersion(c)
		if len(c) > 8 {
			c = c[:8]
		}
		out = append(out, c)
	}
	return out
}

func prefixEq(a, b []string) bool {
	if len(a) > len(b) {
		return false
	}
	for i := range a {
		if a[i] != b[i] {
			return false
		}
	}
	return true
}

func C16State(s *Snap) []engine.Finding {
	var out []engine.Finding
	inflight := map[string]int{}
	for _, oid := range s.OrderIds {
		o := s.Orders[oid]
		if o.Operation != 3 && o.Status != ordertypes.OrderCompleted {
			if _, ok := s.Metas[o.DataId]; ok {
				inflight[o.DataId]++
			}
		}
	}
	for _, d := range sortedKeys(inflight) {
		if inflight[d] > 1 {
			out = append(out, fd("C16", "two-updates-in-flight", "", fmt.Sprintf("model %s has %d orders that are not completed", d, inflight[d])))
		}
	}
	for _, d := range sortedKeys(s.Metas) {
		m := s.Metas[d]
		if m.Status == modeltypes.MetaComplete && len(m.Commits) > 0 {
			if last := modelkeeper.CommitFromVersion(m.Commits[len(m.Commits)-1]); last != m.Commit {
				out = append(out, fd("C16", "current-version-not-last-committed", "", fmt.Sprintf("model %s: no update in flight, current version %q, last committed %q", d, m.Commit, last)))
			}
		}
	}
	return out
}

var _ = world.Denom

// ---------------------------------------------------------------------------------------------
// C15 (engine X part): every assignment made by store / ready / timeout handling / migrate

func eligibleIn(s *Snap, sp string, size uint64) string {
	n, ok := s.Nodes[sp]
	if !ok {
		return "not-a-node"
	}
	if n.Status&stElig != stElig {
		return "not-online-serving-accepting"
	}
	if n.Reputation < 8000 {
		return "reputation-below-floor"
	}
	p, ok := s.Pledges[sp]
	if !ok {
		return "no-pledge"
	}
	if p.TotalStorage-p.UsedStorage < int64(size) {
		return "not-enough-free-capacity"
	}
	return ""
}

func C15Step(si *engine.StepInfo, pre, post *Snap) []engine.Finding {
	var out []engine.Finding
	byOrder := map[uint64][]ordertypes.Shard{}
	for _, sid := range post.ShardIds {
		if _, old := pre.Shards[sid]; old {
			continue
		}
		sh := post.Shards[sid]
		byOrder[sh.OrderId] = append(byOrder[sh.OrderId], sh)
	}
	for _, oid := range sortedU64(byOrder) {
		news := byOrder[oid]
		seen := map[string]bool{}
		po, existed := pre.Orders[oid]
		if existed {
			for _, id := range po.Shards {
				if sh, ok := pre.Shards[id]; ok {
					seen[sh.Sp] = true
				}
			}
		}
		reused := false
		if qo, ok := post.Orders[oid]; ok && qo.Operation == 2 && !existed {
			reused = true // force-push re-uses the current providers of the model (separate discriminator)
		}
		for _, sh := range news {
			if seen[sh.Sp] {
				out = append(out, fd("C15", "assignment", cmpb(existed, "provider-already-holds-or-timed-out-on-the-order", "duplicate-provider"), fmt.Sprintf("order %d: new shard %d assigned to %s, which already has a shard of this order", oid, sh.Id, si.W.NameOf(sh.Sp))))
			}
			seen[sh.Sp] = true
			why := eligibleIn(pre, sh.Sp, sh.Size_)
			if why == "not-enough-free-capacity" && reused {
				// a force-push replaces the current version: the capacity of the provider's shard of that version is
				// released before the new shard is pledged (Complete -> UpdateMeta -> TerminateOrder -> ShardPledge)
				freed := uint64(0)
				if m, ok := pre.Metas[post.Orders[oid].DataId]; ok {
					for _, id := range pre.Orders[m.OrderId].Shards {
						if old, ok := pre.Shards[id]; ok && old.Sp == sh.Sp && old.Status == ordertypes.ShardCompleted {
							freed += old.Size_
						}
					}
				}
				if p, ok := pre.Pledges[sh.Sp]; ok && uint64(p.TotalStorage-p.UsedStorage)+freed >= sh.Size_ {
					why = ""
				}
			}
			if why != "" {
				out = append(out, fd("C15", "assignment", cmpb(reused, "force-push-reuse:", "")+why, fmt.Sprintf("order %d: new shard %d assigned to %s: %s", oid, sh.Id, si.W.NameOf(sh.Sp), why)))
			}
		}
		if qo, ok := post.Orders[oid]; ok && !existed && qo.Operation != 3 {
			if int32(len(news)) > qo.Replica {
				out = append(out, fd("C15", "assignment", "more-than-requested", fmt.Sprintf("order %d: %d shards for replica %d", oid, len(news), qo.Replica)))
			}
			if qo.Status == ordertypes.OrderDataReady && int32(len(news)) < qo.Replica {
				out = append(out, fd("C15", "assignment", "under-replicated", fmt.Sprintf("order %d accepted with %d shards for replica %d", oid, len(news), qo.Replica)))
			}
		}
	}
	return out
}
