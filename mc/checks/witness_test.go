package checks

import (
	"encoding/json"
	"io"
	"os"
	"path/filepath"
	"testing"

	"saomc/engine"
	"saomc/world"
)

// TestKnownFindingWitnesses replays the committed witness trace of every known finding of an engine-X check as a
// plain test (no search): the recorded signature must be reproduced on the current tree. It documents the defect and
// tells when a known finding has silently disappeared (then its entry should move to "fixed").
func TestKnownFindingWitnesses(t *testing.T) {
	root := os.Getenv("VERIF_ROOT")
	if root == "" {
		root = "/verif"
	}
	files, _ := filepath.Glob(filepath.Join(root, "traces", "known", "*.json"))
	if len(files) == 0 {
		t.Skip("no witnesses")
	}
	for _, f := range files {
		bz, _ := os.ReadFile(f)
		var tr struct {
			Check, Tier, Scenario string
			Finding               engine.Finding
		}
		if err := json.Unmarshal(bz, &tr); err != nil {
			t.Fatal(f, err)
		}
		c := Registry[tr.Check]
		if c == nil || c.Scenarios == nil || tr.Scenario == "extra" {
			continue
		}
		found := false
		for _, sc := range c.Scenarios(tr.Tier) {
			if sc.ID != tr.Scenario {
				continue
			}
			w := world.New(sc.Cfg)
			for _, fd := range engine.Replay(w, sc, tr.Finding.Root, tr.Finding.Trace, io.Discard) {
				if fd.Sig() == tr.Finding.Sig() {
					found = true
				}
			}
			w.Close()
		}
		if !found {
			t.Errorf("%s: %s not reproduced", filepath.Base(f), tr.Finding.Sig())
		} else {
			t.Logf("%s: reproduced %s", filepath.Base(f), tr.Finding.Sig())
		}
	}
}
