package checks

import (
	"bytes"
	"fmt"
	"strings"

	"saomc/engine"
	"saomc/world"

	didkeeper "github.com/SaoNetwork/sao/x/did/keeper"
	didtypes "github.com/SaoNetwork/sao/x/did/types"
	modeltypes "github.com/SaoNetwork/sao/x/model/types"
	nodetypes "github.com/SaoNetwork/sao/x/node/types"
	ordertypes "github.com/SaoNetwork/sao/x/order/types"
	saotypes "github.com/SaoNetwork/sao/x/sao/types"
	sdk "github.com/cosmos/cosmos-sdk/types"
)

// Authorization scenarios: a small lifecycle exploration in which, in every state, every unauthorised request
// (principal x request type x relayer x crafted field) is offered as a transition. The oracle requires that a
// transition tagged "adv" leaves the protected view byte-identical; transitions tagged "auth" are the allowed
// twins and must succeed somewhere (non-vacuity).

var (
	sidVictim   = world.NewSid("OS", "sid-victim-key", uint64(world.BlockTime(1).Unix()))
	sidAttacker = world.NewSid("AS", "sid-attacker-key", uint64(world.BlockTime(1).Unix()))
)

func advOp(kind, label string, m sdk.Msg, meta map[string]string) engine.Op {
	meta["adv"] = "1"
	return engine.Op{Label: label, Kind: kind, Msg: m, Meta: meta}
}

// view09 renders the protected object of C09: the model, its alias entries, its orders and their shards.
func view09(s *Snap, data string) string {
	var b strings.Builder
	if m, ok := s.Metas[data]; ok {
		bz, _ := m.Marshal()
		fmt.Fprintf(&b, "meta %x\n", bz)
	} else {
		b.WriteString("meta absent\n")
	}
	for _, k := range sortedKeys(s.Models) {
		if s.Models[k] == data {
			fmt.Fprintf(&b, "alias %s\n", k)
		}
	}
	for _, oid := range s.OrderIds {
		o := s.Orders[oid]
		if o.DataId != data {
			continue
		}
		bz, _ := o.Marshal()
		fmt.Fprintf(&b, "order %d %x\n", oid, bz)
		for _, sid := range o.Shards {
			if sh, ok := s.Shards[sid]; ok {
				sb, _ := sh.Marshal()
				fmt.Fprintf(&b, "shard %d %x\n", sid, sb)
			}
		}
	}
	for _, h := range sortedU64(s.ExpData) {
		if containsS(s.ExpData[h], data) {
			fmt.Fprintf(&b, "expiry %d\n", h)
		}
	}
	return b.String()
}

// view10 renders everything that does not belong to the adversary: all orders, shards, pledges, debts, workers,
// nodes, pool, models and the balances of every actor except the adversary.
func view10(w *world.World, ctx sdk.Context, s *Snap, adversary string) string {
	var b strings.Builder
	for _, oid := range s.OrderIds {
		bz, _ := ptr(s.Orders[oid]).Marshal()
		fmt.Fprintf(&b, "order %d %x\n", oid, bz)
	}
	for _, sid := range s.ShardIds {
		bz, _ := ptr(s.Shards[sid]).Marshal()
		fmt.Fprintf(&b, "shard %d %x\n", sid, bz)
	}
	for _, k := range sortedKeys(s.Pledges) {
		if k == adversary {
			continue
		}
		bz, _ := ptr(s.Pledges[k]).Marshal()
		fmt.Fprintf(&b, "pledge %s %x\n", k, bz)
	}
	for _, k := range sortedKeys(s.Nodes) {
		if k == adversary {
			continue
		}
		bz, _ := ptr(s.Nodes[k]).Marshal()
		fmt.Fprintf(&b, "node %s %x\n", k, bz)
	}
	for _, k := range sortedKeys(s.Workers) {
		bz, _ := ptr(s.Workers[k]).Marshal()
		fmt.Fprintf(&b, "worker %s %x\n", k, bz)
	}
	for _, k := range sortedKeys(s.Metas) {
		bz, _ := ptr(s.Metas[k]).Marshal()
		fmt.Fprintf(&b, "meta %s %x\n", k, bz)
	}
	for _, k := range sortedKeys(s.Debts) {
		fmt.Fprintf(&b, "debt %s %s\n", k, s.Debts[k])
	}
	pb, _ := s.Pool.Marshal()
	fmt.Fprintf(&b, "pool %x\n", pb)
	for _, a := range w.Actors {
		if a.S() == adversary {
			continue
		}
		fmt.Fprintf(&b, "bal %s %s\n", a.Name, w.Bal(ctx, a.Addr))
	}
	for _, m := range []string{"order", "market", "node", "did"} {
		fmt.Fprintf(&b, "modbal %s %s\n", m, w.Bal(ctx, world.ModAddr(m)))
	}
	return b.String()
}

type AuthOracle struct {
	Prop string
}

type nullGhost struct{}

func (nullGhost) Clone() engine.Ghost { return nullGhost{} }
func (nullGhost) Bytes() []byte       { return nil }

func (AuthOracle) InitGhost(*world.World, sdk.Context) engine.Ghost { return nullGhost{} }

func (o AuthOracle) Step(si *engine.StepInfo) []engine.Finding {
	if si.Post == nil {
		return nil
	}
	if si.Op.Meta == nil {
		si.Op.Meta = map[string]string{}
	}
	var paid []engine.Finding
	if did := si.Op.Meta["signer_did"]; o.Prop == "C10" && did != "" {
		// an order is charged only to the payment address of the DID whose signed request this is
		want := ""
		if a, err := si.W.App.DidKeeper.GetCosmosPaymentAddress(si.PreCtx, did); err == nil {
			want = a.String()
		}
		for _, f := range si.Res.Flows {
			if isModule(f.To) == ordertypes.ModuleName && isModule(f.From) == "" && f.From != want {
				paid = append(paid, fd("C10", "charged-without-own-request", si.Op.Kind, fmt.Sprintf("%s: the request is signed by %s, but %s is charged %s", si.Op.Label, si.W.NameOf(want), si.W.NameOf(f.From), f.Amt)))
			}
		}
	}
	// an accepted registration update by a node's own account is what the chain records for that node
	if rm, ok := si.Op.Msg.(*nodetypes.MsgReset); ok && o.Prop == "C10" && si.Op.Meta["adv"] == "" && si.Res.OK {
		post := snapOf(si.W, si.PostCtx, si.Post)
		if n, ok := post.Nodes[rm.Creator]; ok {
			if fmt.Sprint(n.TxAddresses) != fmt.Sprint(rm.TxAddresses) || n.Status != rm.Status {
				paid = append(paid, fd("C10", "registration-differs-from-own-request", "", fmt.Sprintf("%s accepted, but the node record has status %d and %d transaction addresses %v", si.Op.Label, n.Status, len(n.TxAddresses), n.TxAddresses)))
			}
		}
	}
	// an accepted owner-signed permission update leaves the model with exactly the lists the owner signed
	if pm, ok := si.Op.Msg.(*saotypes.MsgUpdataPermission); ok && o.Prop == "C09" && si.Op.Meta["adv"] == "" && si.Res.OK {
		post := snapOf(si.W, si.PostCtx, si.Post)
		if m, ok := post.Metas[pm.Proposal.DataId]; ok {
			if fmt.Sprint(m.ReadwriteDids) != fmt.Sprint(pm.Proposal.ReadwriteDids) || fmt.Sprint(m.ReadonlyDids) != fmt.Sprint(pm.Proposal.ReadonlyDids) {
				paid = append(paid, fd("C09", "permissions-differ-from-signed-request", "", fmt.Sprintf("%s: the owner signed rw=%d ro=%d DIDs, the model now has rw=%d ro=%d", si.Op.Label, len(pm.Proposal.ReadwriteDids), len(pm.Proposal.ReadonlyDids), len(m.ReadwriteDids), len(m.ReadonlyDids))))
			}
		}
	}
	if si.Op.Meta["adv"] == "" {
		return paid
	}
	out := o.advStep(si)
	return append(out, paid...)
}

func (o AuthOracle) advStep(si *engine.StepInfo) []engine.Finding {
	w := si.W
	pre, post := snapOf(w, si.PreCtx, si.Pre), snapOf(w, si.PostCtx, si.Post)
	var a, b string
	if o.Prop == "C09" {
		a, b = view09(pre, si.Op.Meta["data"]), view09(post, si.Op.Meta["data"])
	} else {
		a, b = view10(w, si.PreCtx, pre, si.Op.Meta["adversary"]), view10(w, si.PostCtx, post, si.Op.Meta["adversary"])
	}
	if a == b {
		return nil
	}
	la, lb := strings.Split(a, "\n"), strings.Split(b, "\n")
	diff := ""
	seen := map[string]bool{}
	for _, l := range la {
		seen[l] = true
	}
	for _, l := range lb {
		if !seen[l] {
			diff = l
			break
		}
	}
	if diff == "" {
		seenB := map[string]bool{}
		for _, l := range lb {
			seenB[l] = true
		}
		for _, l := range la {
			if !seenB[l] {
				diff = "removed: " + l
				break
			}
		}
	}
	what := strings.SplitN(diff, " ", 2)[0]
	if len(diff) > 120 {
		diff = diff[:120]
	}
	return []engine.Finding{fd(o.Prop, "unauthorised-request-changed-state", si.Op.Meta["variant"], fmt.Sprintf("%s accepted and changed %s (%s)", si.Op.Label, what, diff))}
}

func (AuthOracle) State(*world.World, sdk.Context, *engine.State) []engine.Finding { return nil }

func (AuthOracle) NonTrivial(w *world.World, ctx sdk.Context, s *engine.State) bool {
	for _, m := range w.App.ModelKeeper.GetAllMetadata(ctx) {
		if len(m.Commits) > 0 {
			return true
		}
	}
	return false
}

// ---------------------------------------------------------------------------------------------

func authSetup(w *world.World) []engine.SetupStep {
	st := SetupBase(w, []int{world.O, world.W, world.Q, world.X, world.P}, []int{world.G, world.G2, world.X}, []int{world.S1, world.S2}, 10_000_000)
	ts := uint64(world.BlockTime(1).Unix())
	// sid identities: victim bound to account T, attacker bound to account V2
	st = append(st,
		fixed(Tx("bind", "bind(OS,T)", world.BindingMsg(sidVictim, w.A(world.T), w.A(world.T), world.CosmosProof(w.A(world.T), sidVictim.Did, "bind "+sidVictim.Did, ts)))),
		fixed(Tx("bind", "bind(AS,V2)", world.BindingMsg(sidAttacker, w.A(world.V2), w.A(world.V2), world.CosmosProof(w.A(world.V2), sidAttacker.Did, "bind "+sidAttacker.Did, ts)))))
	// model D1 owned by O (did:key), stored and completed, rw grantee W, ro grantee Q
	st = append(st,
		fixed(Tx("store", "store(11)", StoreMsg(w, StoreP{Signer: world.O, Relayer: world.G, Gateway: world.G, DataId: world.Data1, CommitId: world.Data1, Size: 1000, Replica: 1, Duration: 3600, Timeout: 100}))),
		CompleteNth(1, 0),
		fixed(Tx("permission", "permission(11,rw=W,ro=Q)", PermissionMsg(w, world.O, world.G, world.G, world.Data1, []string{w.A(world.Q).Did}, []string{w.A(world.W).Did}))))
	// model D3 owned by the stranger X itself (relayed through its own node): gives the adversary a legitimate
	// model to mix into multi-model requests
	d3 := "33333333-3333-3333-3333-333333333333"
	st = append(st,
		fixed(Tx("store", "store(33,X)", StoreMsg(w, StoreP{Signer: world.X, Relayer: world.X, Gateway: world.X, DataId: d3, CommitId: d3, Size: 1000, Replica: 1, Duration: 3600, Timeout: 100}))),
		CompleteNth(2, 0))
	// model D2 owned by the victim sid
	p := saotypes.Proposal{Owner: sidVictim.Did, Provider: w.A(world.G).S(), GroupId: "g", Duration: 3600, Replica: 1, Timeout: 100, Alias: "alias-22", DataId: world.Data2, CommitId: world.Data2, Cid: world.Cid, Size_: 1000, Operation: 1}
	st = append(st,
		fixed(Tx("store", "store(22,sid)", &saotypes.MsgStore{Creator: w.A(world.G).S(), Provider: w.A(world.G).S(), Proposal: p, JwsSignature: world.SignKid(sidVictim.KeyPriv, sidVictim.Kid(sidVictim.DocId), &p)})),
		CompleteNth(3, 0))
	return st
}

// c09Adversarial lists every unauthorised request against data (owned by ownerDid) in the current state.
func c09Adversarial(w *world.World, ctx sdk.Context, data string) []engine.Op {
	var out []engine.Op
	meta, ok := w.App.ModelKeeper.GetMetadata(ctx, data)
	if !ok {
		return nil
	}
	next := w.App.OrderKeeper.GetOrderCount(ctx)
	newCommit := commitName(next)
	type relay struct {
		name             string
		creator, gateway int
	}
	relays := []relay{{"viaG", world.G, world.G}, {"viaOwnNode", world.X, world.X}}
	type signer struct {
		idx  int
		role string
	}
	// roles follow the model's current lists (the owner may have re-arranged them); that the lists are what the owner
	// signed is checked separately (permissions-differ-from-signed-request)
	roleOf := func(i int) string {
		did := w.A(i).Did
		for _, d := range meta.ReadwriteDids {
			if d == did {
				return "rw"
			}
		}
		for _, d := range meta.ReadonlyDids {
			if d == did {
				return "ro"
			}
		}
		return "stranger"
	}
	signers := []signer{{world.Q, roleOf(world.Q)}, {world.X, "stranger"}, {world.W, roleOf(world.W)}}
	mk := func(kind, variant, label string, m sdk.Msg) {
		out = append(out, advOp("adv-"+kind, fmt.Sprintf("adv-%s(%s,%s)", kind, data[:2], label), m, map[string]string{"data": data, "variant": kind + ":" + variant}))
	}
	for _, sg := range signers {
		s := w.A(sg.idx)
		for _, rl := range relays {
			tag := sg.role + "," + rl.name
			if sg.role != "rw" {
				// content updates / force-push with the signer's own proposal
				commits := map[string]string{
					"plain-base":              meta.Commit + "|" + newCommit,
					"commit-embeds-data-id":   data + "|" + data + "-evil-" + newCommit[:8],
					"extra-segment-data-id":   meta.Commit + "|" + newCommit + "|" + data,
					"commit-equals-data-id":   data,
					"base-substring":          meta.Commit[:4] + "|" + newCommit,
					"empty-base-with-data-id": "|" + data,
				}
				for _, v := range sortedKeys(commits) {
					for _, op := range []uint32{1, 2} {
						m := StoreMsg(w, StoreP{Signer: sg.idx, Relayer: rl.creator, Gateway: rl.gateway, DataId: data, CommitId: commits[v], Size: 1000, Replica: 1, Duration: 3600, Timeout: 100, Operation: op, Cid: world.Cid2, Alias: meta.Alias})
						mk(cmpb(op == 1, "update", "forcepush"), v, tag+","+v, m)
					}
				}
				// proposal names the victim as owner but is signed by the signer's key
				mm := StoreMsg(w, StoreP{Signer: sg.idx, OwnerDid: meta.Owner, Relayer: rl.creator, Gateway: rl.gateway, DataId: data, CommitId: meta.Commit + "|" + newCommit, Size: 1000, Replica: 1, Duration: 3600, Timeout: 100, Cid: world.Cid2, Alias: meta.Alias})
				mk("update", "owner-field-mismatch", tag+",owner-field", mm)
				// terminate
				mk("terminate", "own-proposal", tag, TerminateMsg(w, sg.idx, rl.creator, rl.gateway, data))
				tp := saotypes.TerminateProposal{Owner: meta.Owner, DataId: data}
				mk("terminate", "owner-field-mismatch", tag+",owner-field", &saotypes.MsgTerminate{Creator: w.A(rl.creator).S(), Provider: w.A(rl.gateway).S(), Proposal: tp, JwsSignature: world.Sign(s.Prov, &tp)})
			}
			// owner-only requests: renew and permission update (also denied to the rw grantee)
			mk("renew", "own-proposal", tag, RenewMsg(w, sg.idx, rl.creator, rl.gateway, 3600, 100, data))
			if sg.idx == world.X {
				// a multi-model renewal that mixes the signer's own model with the victim's, in both orders
				own := "33333333-3333-3333-3333-333333333333"
				mk("renew", "own-model-first", tag+",own-first", RenewMsg(w, sg.idx, rl.creator, rl.gateway, 3600, 100, own, data))
				mk("renew", "own-model-last", tag+",own-last", RenewMsg(w, sg.idx, rl.creator, rl.gateway, 3600, 100, data, own))
			}
			rp := saotypes.RenewProposal{Owner: meta.Owner, Duration: 3600, Timeout: 100, Data: []string{data}}
			mk("renew", "owner-field-mismatch", tag+",owner-field", &saotypes.MsgRenew{Creator: w.A(rl.creator).S(), Provider: w.A(rl.gateway).S(), Proposal: rp, JwsSignature: world.Sign(s.Prov, &rp)})
			mk("permission", "own-proposal", tag, PermissionMsg(w, sg.idx, rl.creator, rl.gateway, data, nil, []string{s.Did}))
			pp := saotypes.PermissionProposal{Owner: meta.Owner, DataId: data, ReadwriteDids: []string{s.Did}}
			mk("permission", "owner-field-mismatch", tag+",owner-field", &saotypes.MsgUpdataPermission{Creator: w.A(rl.creator).S(), Provider: w.A(rl.gateway).S(), Proposal: pp, JwsSignature: world.Sign(s.Prov, &pp)})
		}
	}
	// replayed owner signatures over modified payloads (only for the did:key owner O of D1)
	if meta.Owner == w.A(world.O).Did {
		g := w.A(world.G).S()
		good := saotypes.PermissionProposal{Owner: meta.Owner, DataId: data, ReadwriteDids: []string{w.A(world.W).Did}, ReadonlyDids: []string{w.A(world.Q).Did}}
		sig := world.Sign(w.A(world.O).Prov, &good)
		bad := good
		bad.ReadwriteDids = []string{w.A(world.X).Did}
		mk("permission", "replayed-signature", "replay", &saotypes.MsgUpdataPermission{Creator: g, Provider: g, Proposal: bad, JwsSignature: sig})
		tOther := saotypes.TerminateProposal{Owner: meta.Owner, DataId: world.Data2}
		tsig := world.Sign(w.A(world.O).Prov, &tOther)
		tBad := saotypes.TerminateProposal{Owner: meta.Owner, DataId: data}
		mk("terminate", "replayed-signature", "replay", &saotypes.MsgTerminate{Creator: g, Provider: g, Proposal: tBad, JwsSignature: tsig})
		up := StoreMsg(w, StoreP{Signer: world.O, Relayer: world.G, Gateway: world.G, DataId: data, CommitId: meta.Commit + "|" + newCommit, Size: 1000, Replica: 1, Duration: 3600, Timeout: 100, Cid: world.Cid2, Alias: meta.Alias})
		up.Proposal.Cid = world.Cid // payload altered after signing
		mk("update", "replayed-signature", "replay", up)
		rn := RenewMsg(w, world.O, world.G, world.G, 3600, 100, data)
		rn.Proposal.Duration = 7200
		mk("renew", "replayed-signature", "replay", rn)
	}
	// sid owner: attacker signs with its own key while the kid names the victim DID
	if meta.Owner == sidVictim.Did {
		x := w.A(world.X).S()
		type kidv struct{ name, kid string }
		var enumerated []kidv
		// every kid with one or two version-like parameters: names the resolver and hand-written parsers may or may
		// not recognise, values the attacker's and the victim's document, both orders
		pnames := []string{"version-id", "versionId", "xversionId", "version-idx", "version%2Did"}
		for _, n1 := range pnames {
			enumerated = append(enumerated, kidv{"kid-enum:" + n1 + "=A", sidVictim.Did + "?" + n1 + "=" + sidAttacker.DocId + "#k1"})
			for _, n2 := range pnames {
				enumerated = append(enumerated,
					kidv{"kid-enum:" + n1 + "=A&" + n2 + "=V", sidVictim.Did + "?" + n1 + "=" + sidAttacker.DocId + "&" + n2 + "=" + sidVictim.DocId + "#k1"},
					kidv{"kid-enum:" + n1 + "=V&" + n2 + "=A", sidVictim.Did + "?" + n1 + "=" + sidVictim.DocId + "&" + n2 + "=" + sidAttacker.DocId + "#k1"})
			}
		}
		for _, v := range append([]kidv{
			{"kid-victim-did-attacker-version", sidVictim.Did + "?version-id=" + sidAttacker.DocId + "#k1"},
			{"kid-victim-did-victim-version", sidVictim.Kid(sidVictim.DocId)},
			{"kid-attacker-did", sidAttacker.Kid(sidAttacker.DocId)},
			{"kid-two-versions-attacker-first", sidVictim.Did + "?version-id=" + sidAttacker.DocId + "&version-id=" + sidVictim.DocId + "#k1"},
			{"kid-two-versions-victim-first", sidVictim.Did + "?version-id=" + sidVictim.DocId + "&version-id=" + sidAttacker.DocId + "#k1"},
			{"kid-mixed-spelling", sidVictim.Did + "?versionId=" + sidAttacker.DocId + "&version-id=" + sidVictim.DocId + "#k1"},
			{"kid-no-version", sidVictim.Did + "#k1"},
		}, enumerated...) {
			tp := saotypes.TerminateProposal{Owner: sidVictim.Did, DataId: data}
			mk("terminate", "sid:"+v.name, "sid,"+v.name, &saotypes.MsgTerminate{Creator: x, Provider: x, Proposal: tp, JwsSignature: world.SignKid(sidAttacker.KeyPriv, v.kid, &tp)})
			pp := saotypes.PermissionProposal{Owner: sidVictim.Did, DataId: data, ReadwriteDids: []string{sidAttacker.Did}}
			mk("permission", "sid:"+v.name, "sid,"+v.name, &saotypes.MsgUpdataPermission{Creator: x, Provider: x, Proposal: pp, JwsSignature: world.SignKid(sidAttacker.KeyPriv, v.kid, &pp)})
			rp := saotypes.RenewProposal{Owner: sidVictim.Did, Duration: 3600, Timeout: 100, Data: []string{data}}
			mk("renew", "sid:"+v.name, "sid,"+v.name, &saotypes.MsgRenew{Creator: x, Provider: x, Proposal: rp, JwsSignature: world.SignKid(sidAttacker.KeyPriv, v.kid, &rp)})
		}
	}
	return out
}

// authorised twins (must succeed somewhere) and lifecycle moves
func c09Authorised(w *world.World, ctx sdk.Context) []engine.Op {
	var out []engine.Op
	a := w.App
	next := a.OrderKeeper.GetOrderCount(ctx)
	if meta, ok := a.ModelKeeper.GetMetadata(ctx, world.Data1); ok {
		out = append(out,
			Tx("auth-update-owner", "auth-update(11,owner)", StoreMsg(w, StoreP{Signer: world.O, Relayer: world.G, Gateway: world.G, DataId: world.Data1, CommitId: meta.Commit + "|" + commitName(next), Size: 1000, Replica: 1, Duration: 3600, Timeout: 100, Cid: world.Cid2, Alias: meta.Alias})),
			Tx("auth-update-rw", "auth-update(11,rw-grantee)", StoreMsg(w, StoreP{Signer: world.W, Relayer: world.G, Gateway: world.G, DataId: world.Data1, CommitId: meta.Commit + "|" + commitName(next), Size: 1000, Replica: 1, Duration: 3600, Timeout: 100, Cid: world.Cid2, Alias: meta.Alias})),
			Tx("auth-renew-owner", "auth-renew(11,owner)", RenewMsg(w, world.O, world.G, world.G, 3600, 100, world.Data1)),
			Tx("auth-terminate-rw", "auth-terminate(11,rw-grantee)", TerminateMsg(w, world.W, world.G, world.G, world.Data1)),
			Tx("auth-permission-owner", "auth-permission(11,owner,rw=none)", PermissionMsg(w, world.O, world.G, world.G, world.Data1, []string{w.A(world.Q).Did}, nil)),
			Tx("auth-permission-owner", "auth-permission(11,owner,rw downgraded to ro)", PermissionMsg(w, world.O, world.G, world.G, world.Data1, []string{w.A(world.W).Did}, nil)),
			Tx("auth-permission-owner", "auth-permission(11,owner,all revoked)", PermissionMsg(w, world.O, world.G, world.G, world.Data1, nil, nil)),
			Tx("auth-permission-owner", "auth-permission(11,owner,swapped)", PermissionMsg(w, world.O, world.G, world.G, world.Data1, []string{w.A(world.W).Did}, []string{w.A(world.Q).Did})))
	}
	if _, ok := a.ModelKeeper.GetMetadata(ctx, world.Data2); ok {
		tp := saotypes.TerminateProposal{Owner: sidVictim.Did, DataId: world.Data2}
		g := w.A(world.G).S()
		out = append(out, Tx("auth-terminate-sid-owner", "auth-terminate(22,sid-owner)", &saotypes.MsgTerminate{Creator: g, Provider: g, Proposal: tp, JwsSignature: world.SignKid(sidVictim.KeyPriv, sidVictim.Kid(sidVictim.DocId), &tp)}))
	}
	for _, ord := range a.OrderKeeper.GetAllOrder(ctx) {
		if ord.Operation == 3 {
			continue
		}
		for _, sid := range ord.Shards {
			if sh, ok := a.OrderKeeper.GetShard(ctx, sid); ok && sh.Status == ordertypes.ShardWaiting {
				out = append(out, CompleteOp(w, ord.Id, sh))
			}
		}
	}
	return out
}

func C09Scenario(tier string) *engine.Scenario {
	d := 4
	if tier == "thorough" {
		d = 6
	}
	sc := &engine.Scenario{ID: "C09-auth", Cfg: world.Config{TwoValidators: true}, Depth: d, Oracle: AuthOracle{Prop: "C09"}}
	sc.Roots = []engine.Root{{Name: "A1", Setup: authSetup}}
	sc.Ops = func(w *world.World, ctx sdk.Context, s *engine.State) []engine.Op {
		out := c09Authorised(w, ctx)
		out = append(out, c09Adversarial(w, ctx, world.Data1)...)
		out = append(out, c09Adversarial(w, ctx, world.Data2)...)
		out = append(out, End(ctx.BlockHeight()))
		return out
	}
	return sc
}

// ---------------------------------------------------------------------------------------------
// C10: actor authorization. Adversary M = actor X with its own registered node.

var sidC10 = world.NewSid("CS", "sid-c10-owner", uint64(world.BlockTime(1).Unix()))

func c10Setup(w *world.World) []engine.SetupStep {
	st := SetupBase(w, []int{world.O, world.X, world.P, world.Q}, []int{world.G, world.X}, []int{world.S1, world.S2}, 10_000_000)
	// G registers a hot key (account W) for itself; owner-paid stores by W on behalf of G are legitimate
	st = append(st, fixed(Tx("reset", "reset(G,tx=[W])", &nodetypes.MsgReset{Creator: w.A(world.G).S(), Status: GatewayStatus, TxAddresses: []string{w.A(world.W).S()}})))
	// a completed order (model D1) and an order in flight (model D2) created by gateway G for owner O
	st = append(st,
		fixed(Tx("store", "store(11)", StoreMsg(w, StoreP{Signer: world.O, Relayer: world.G, Gateway: world.G, DataId: world.Data1, CommitId: world.Data1, Size: 1000, Replica: 1, Duration: 3600, Timeout: 100}))),
		CompleteNth(1, 0),
		fixed(Tx("store", "store(22)", StoreMsg(w, StoreP{Signer: world.O, Relayer: world.G, Gateway: world.G, DataId: world.Data2, CommitId: world.Data2, Size: 1000, Replica: 1, Duration: 3600, Timeout: 100}))),
		// a did:sid owner with two bound accounts: T (first binding, hence its payment address) and V2
		fixed(Tx("bind", "bind(C10 sid,T)", world.BindingMsg(sidC10, w.A(world.T), w.A(world.T), world.CosmosProof(w.A(world.T), sidC10.Did, "bind "+sidC10.Did, sidC10.Ts)))),
		fixed(Tx("bind", "bind(C10 sid,V2,by T)", world.BindingMsg(sidC10, w.A(world.V2), w.A(world.T), world.CosmosProof(w.A(world.V2), sidC10.Did, "bind "+sidC10.Did, sidC10.Ts)))),
		// provider S3 serves storage only (no gateway bit: not eligible for the super role yet), has declared address W, and
		// holds enough capacity and stake to become a super node as soon as it declares the full status
		fixed(Tx("create", "create(S3)", &nodetypes.MsgCreate{Creator: w.A(world.S3).S()})),
		fixed(Tx("reset", "reset(S3,storage only,tx=[W])", &nodetypes.MsgReset{Creator: w.A(world.S3).S(), Status: nodetypes.NODE_STATUS_ONLINE | nodetypes.NODE_STATUS_SERVE_STORAGE | nodetypes.NODE_STATUS_ACCEPT_ORDER, TxAddresses: []string{w.A(world.W).S()}})),
		fixed(Tx("addv", "addv(S3)", &nodetypes.MsgAddVstorage{Creator: w.A(world.S3).S(), Size_: 10_000_000})),
		fixed(Tx("delegate", "delegate(S3,V,200M)", stakingDelegate(w, world.S3, sdk.ValAddress(w.A(world.V).Addr).String(), 200_000_000))),
		// Q is a collaborator with read-write access to D1 (it may update the content at its own expense)
		fixed(Tx("permission", "permission(11,rw=Q)", PermissionMsg(w, world.O, world.G, world.G, world.Data1, nil, []string{w.A(world.Q).Did}))))
	return st
}

func c10Ops(w *world.World, ctx sdk.Context) []engine.Op {
	var out []engine.Op
	a := w.App
	M := w.A(world.X)
	meta := func(variant string) map[string]string {
		return map[string]string{"adversary": M.S(), "variant": variant}
	}
	adv := func(kind, variant, label string, m sdk.Msg) {
		out = append(out, advOp("adv-"+kind, "adv-"+kind+"("+label+")", m, meta(kind+":"+variant)))
	}
	// the adversary's own declarations (legitimate on their own): TxAddresses of its node
	mnode, _ := a.NodeKeeper.GetNode(ctx, M.S())
	for _, decl := range [][]int{{world.G}, {world.S1}, {world.X}, {world.G, world.S1}} {
		var l []string
		var names []string
		for _, i := range decl {
			l = append(l, w.A(i).S())
			names = append(names, w.A(i).Name)
		}
		if fmt.Sprint(mnode.TxAddresses) != fmt.Sprint(l) {
			out = append(out, Tx("declare", fmt.Sprintf("declare(M,tx=%v)", names), &nodetypes.MsgReset{Creator: M.S(), Status: GatewayStatus, TxAddresses: l}))
		}
	}
	// a provider re-declares its own registration (status and the addresses allowed to act for it)
	if sn, ok := a.NodeKeeper.GetNode(ctx, w.A(world.S3).S()); ok {
		for _, decl := range [][]int{{world.W}, {world.Q}} {
			var l []string
			for _, i := range decl {
				l = append(l, w.A(i).S())
			}
			for _, st := range []uint32{FullStatus, nodetypes.NODE_STATUS_ONLINE | nodetypes.NODE_STATUS_SERVE_STORAGE | nodetypes.NODE_STATUS_ACCEPT_ORDER} {
				if fmt.Sprint(sn.TxAddresses) != fmt.Sprint(l) || sn.Status != st {
					out = append(out, Tx("declare", fmt.Sprintf("declare(S3,status=%d,tx=[%s])", st, w.A(decl[0]).Name), &nodetypes.MsgReset{Creator: w.A(world.S3).S(), Status: st, TxAddresses: l}))
				}
			}
		}
	}
	for _, ord := range a.OrderKeeper.GetAllOrder(ctx) {
		// claimed providers: itself, the order's gateway, the shard's provider
		claims := map[string]string{"M": M.S(), "gateway": ord.Provider}
		for _, sid := range ord.Shards {
			if sh, ok := a.OrderKeeper.GetShard(ctx, sid); ok {
				claims["sp:"+w.NameOf(sh.Sp)] = sh.Sp
			}
		}
		for _, cn := range sortedKeys(claims) {
			prov := claims[cn]
			l := fmt.Sprintf("o%d,as=%s", ord.Id, cn)
			adv("cancel", "claimed="+strings.SplitN(cn, ":", 2)[0], l, &saotypes.MsgCancel{Creator: M.S(), Provider: prov, OrderId: ord.Id})
			adv("ready", "claimed="+strings.SplitN(cn, ":", 2)[0], l, &saotypes.MsgReady{Creator: M.S(), Provider: prov, OrderId: ord.Id})
			adv("complete", "claimed="+strings.SplitN(cn, ":", 2)[0], l, &saotypes.MsgComplete{Creator: M.S(), Provider: prov, OrderId: ord.Id, Cid: world.Cid, Size_: ord.Size_})
			adv("migrate", "claimed="+strings.SplitN(cn, ":", 2)[0], l, &saotypes.MsgMigrate{Creator: M.S(), Provider: prov, Data: []string{ord.DataId}})
		}
	}
	// node-level messages aimed at others: only msg.Creator's records may change, and M has no pledge
	adv("claim", "no-pledge", "M", &nodetypes.MsgClaimReward{Creator: M.S()})
	adv("removev", "no-pledge", "M", &nodetypes.MsgRemoveVstorage{Creator: M.S(), Size_: 1_000_000})
	// store submissions of an owner-signed proposal naming gateway G
	if _, exists := a.ModelKeeper.GetMetadata(ctx, world.Data1); exists {
		d3 := "33333333-3333-3333-3333-333333333333"
		if _, ok := a.ModelKeeper.GetMetadata(ctx, d3); !ok {
			base := StoreP{Signer: world.O, Gateway: world.G, DataId: d3, CommitId: d3, Size: 1000, Replica: 1, Duration: 3600, Timeout: 100}
			mk := func(relayer int, msgProvider int) *saotypes.MsgStore {
				p := base
				p.Relayer = relayer
				m := StoreMsg(w, p)
				m.Provider = w.A(msgProvider).S()
				return m
			}
			adv("store", "third-party-claims-own-node", "33,creator=M,provider=M", mk(world.X, world.X))
			adv("store", "third-party-claims-named-gateway", "33,creator=M,provider=G", mk(world.X, world.G))
			adv("store", "third-party-claims-other-gateway", "33,creator=M,provider=S1", mk(world.X, world.S1))
			// sponsor P named as payer, submitted by someone else
			sp := base
			sp.PayDid = w.A(world.P).Did
			sp.Relayer = world.X
			adv("store", "sponsored-not-submitted-by-sponsor", "33,pay=P,creator=M", StoreMsg(w, sp))
			sp.Relayer = world.G
			out = append(out, advOp("adv-store", "adv-store(33,pay=P,creator=G)", StoreMsg(w, sp), map[string]string{"adversary": w.A(world.G).S(), "variant": "store:sponsored-submitted-by-gateway"}))
			// allowed twins
			out = append(out, Tx("auth-store-gateway", "auth-store(33,creator=G)", mk(world.G, world.G)))
			out = append(out, Tx("auth-store-hotkey", "auth-store(33,creator=W,provider=G)", mk(world.W, world.G)))
			sp.Relayer = world.P
			out = append(out, Tx("auth-store-sponsor", "auth-store(33,pay=P,creator=P)", StoreMsg(w, sp)))
		}
	}
	// a did:sid owner: requests it signed may be submitted by its own bound accounts (the order then stays pending);
	// an account dropped from the DID by a key rotation is a third party again
	if l, ok := a.DidKeeper.GetAccountList(ctx, sidC10.Did); ok {
		v2 := w.A(world.V2)
		listed := false
		var rm []string
		var keep []*didtypes.AccountAuth
		for _, ad := range l.AccountDids {
			if id, ok := a.DidKeeper.GetAccountId(ctx, ad); ok && id.AccountId == v2.AccountId() {
				listed = true
				rm = append(rm, ad)
			} else {
				keep = append(keep, &didtypes.AccountAuth{AccountDid: ad, AccountEncryptedSeed: "s2", SidEncryptedAccount: "e2"})
			}
		}
		d4 := "44444444-4444-4444-4444-444444444444"
		if _, exists := a.ModelKeeper.GetMetadata(ctx, d4); !exists {
			p := saotypes.Proposal{Owner: sidC10.Did, Provider: w.A(world.G).S(), GroupId: "g", Duration: 3600, Replica: 1, Timeout: 100, Alias: "alias-44", DataId: d4, CommitId: d4, Cid: world.Cid, Size_: 1000, Operation: 1}
			m := &saotypes.MsgStore{Creator: v2.S(), Provider: w.A(world.G).S(), Proposal: p, JwsSignature: world.SignKid(sidC10.KeyPriv, sidC10.Kid(sidC10.DocId), &p)}
			if listed {
				out = append(out, Tx("auth-store-bound-account", "auth-store(44,signed=sid,creator=V2 bound)", m))
			} else {
				out = append(out, advOp("adv-store", "adv-store(44,signed=sid,creator=V2 dropped from the DID)", m, map[string]string{"adversary": v2.S(), "variant": "store:submitted-by-account-dropped-from-owner-did"}))
			}
		}
		if listed {
			now := uint64(ctx.BlockTime().Unix())
			newKeys := []*didtypes.PubKey{{Name: "k1", Value: sidC10.Keys[0].Value}, {Name: "k2", Value: sidAttacker.Keys[0].Value}}
			newDoc, _ := didkeeper.CalculateDocId(newKeys, now)
			out = append(out, Tx("rotate", "rotate(C10 sid,drop V2)", &didtypes.MsgUpdate{Creator: w.A(world.T).S(), Did: sidC10.Did, NewDocId: newDoc, Keys: newKeys, Timestamp: now, UpdateAccountAuth: keep, RemoveAccountDid: rm, PastSeed: "seed-c10"}))
		}
	}
	// renewals: the renewal order is charged to a payment address; who signed and who submitted?
	if m1, exists := a.ModelKeeper.GetMetadata(ctx, world.Data1); exists && m1.Status == modeltypes.MetaComplete {
		signed := func(signer int, relayer, provider string) *saotypes.MsgRenew {
			rp := saotypes.RenewProposal{Owner: w.A(signer).Did, Duration: 3600, Timeout: 100, Data: []string{world.Data1}}
			return &saotypes.MsgRenew{Creator: relayer, Provider: provider, Proposal: rp, JwsSignature: world.Sign(w.A(signer).Prov, &rp)}
		}
		g := w.A(world.G).S()
		withSigner := func(op engine.Op, signer int) engine.Op {
			if op.Meta == nil {
				op.Meta = map[string]string{}
			}
			op.Meta["signer_did"] = w.A(signer).Did
			return op
		}
		out = append(out,
			withSigner(advOp("adv-renew", "adv-renew(11,signed=O,creator=M,provider=M)", signed(world.O, M.S(), M.S()), meta("renew:owner-signed-submitted-by-third-party")), world.O),
			withSigner(advOp("adv-renew", "adv-renew(11,signed=O,creator=M,provider=G)", signed(world.O, M.S(), g), meta("renew:owner-signed-third-party-claims-gateway")), world.O),
			withSigner(advOp("adv-renew", "adv-renew(11,signed=Q,creator=G)", signed(world.Q, g, g), map[string]string{"adversary": w.A(world.Q).S(), "variant": "renew:signed-by-rw-grantee"}), world.Q),
			withSigner(advOp("adv-renew", "adv-renew(11,signed=Q,creator=M,provider=M)", signed(world.Q, M.S(), M.S()), meta("renew:signed-by-rw-grantee-submitted-by-third-party")), world.Q),
			withSigner(advOp("adv-renew", "adv-renew(11,signed=M,creator=M)", signed(world.X, M.S(), M.S()), meta("renew:signed-by-stranger")), world.X),
			withSigner(Tx("auth-renew", "auth-renew(11,signed=O,creator=G)", signed(world.O, g, g)), world.O))
		// the collaborator updates the content through the gateway (and pays for it itself)
		next := a.OrderKeeper.GetOrderCount(ctx)
		out = append(out, withSigner(Tx("auth-update-rw", "auth-update(11,signed=Q,creator=G)", StoreMsg(w, StoreP{Signer: world.Q, Relayer: world.G, Gateway: world.G, DataId: world.Data1, CommitId: m1.Commit + "|" + commitName(next), Size: 1000, Replica: 1, Duration: 3600, Timeout: 100, Cid: world.Cid2, Alias: m1.Alias})), world.Q))
	}
	// legitimate moves of the victims
	for _, ord := range a.OrderKeeper.GetAllOrder(ctx) {
		for _, sid := range ord.Shards {
			if sh, ok := a.OrderKeeper.GetShard(ctx, sid); ok && sh.Status == ordertypes.ShardWaiting {
				out = append(out, CompleteOp(w, ord.Id, sh))
			}
		}
		if ord.Status != ordertypes.OrderCompleted {
			out = append(out, Tx("auth-cancel", fmt.Sprintf("auth-cancel(o%d,creator)", ord.Id), &saotypes.MsgCancel{Creator: ord.Creator, Provider: ord.Creator, OrderId: ord.Id}))
		}
	}
	out = append(out, End(ctx.BlockHeight()))
	return out
}

func C10Scenario(tier string) *engine.Scenario {
	d := 4
	if tier == "thorough" {
		d = 7
	}
	sc := &engine.Scenario{ID: "C10-actors", Cfg: world.Config{VstorageThresh: 1_000_000}, Depth: d, Oracle: AuthOracle{Prop: "C10"}}
	sc.Roots = []engine.Root{{Name: "B1", Setup: c10Setup}}
	sc.Ops = func(w *world.World, ctx sdk.Context, s *engine.State) []engine.Op { return c10Ops(w, ctx) }
	return sc
}

var _ = didtypes.ModuleName
var _ = bytes.Equal
