package checks

import (
	"saomc/engine"
	"saomc/world"
)

// Check describes one registered property check.
type Check struct {
	ID          string
	Level       string // evidence level
	Rule        string // how cases are enumerated and what counts as non-trivial
	Assumptions []string
	Workers     int
	// Scenarios lists the engine-X explorations of the check for a tier.
	Scenarios func(tier string) []*engine.Scenario
	// Extra runs non-engine-X legs (engine R / engine E); may be nil.
	Extra func(tier string, env *Env) ExtraResult
	// Conform selects how many explorer traces are replayed through the real ABCI pipeline.
	Conform func(tier string) int
}

type ExtraResult struct {
	Evaluations int
	Distinct    int
	Findings    []engine.Finding
	Samples     []interface{}
	Notes       map[string]interface{}
	Exhaustive  bool
}

type Env struct {
	Tier    string
	Workers int
}

var Registry = map[string]*Check{}

func register(c *Check) { Registry[c.ID] = c }

func props(ids ...string) map[string]bool {
	m := map[string]bool{}
	for _, i := range ids {
		m[i] = true
	}
	return m
}

var lifeAssumptions = []string{
	"SDK modules (bank, auth, staking, params) and Tendermint are trusted",
	"handlers are driven through MsgServiceRouter on a branched store with a finite gas meter, as baseapp.runMsgs does; ante handler and signature checks are exercised only in the ABCI conformance leg",
	"height jumps skip only heights whose custom end-blockers are no-ops (checked dynamically at the first and last skipped height of every jump)",
	"values outside the parameter menus (sizes, durations, replica counts, more providers/models) are not covered",
}

// baseLife returns the common lifecycle options of the C13/C14/C04.. family for a tier.
func baseLife(id, tier string, p map[string]bool) LifeOpts {
	o := LifeOpts{ID: id + "-life", Cfg: world.Config{}, SPs: []int{world.S1, world.S2, world.S3}, Capacity: 10_000_000,
		DataIds: []string{world.Data1}, Sizes: []uint64{10000}, Replicas: []int32{2}, Durations: []uint64{3600}, Timeouts: []int32{100},
		RenewDur: []uint64{7200}, Migrate: true, Claim: true, Cancel: true, Terminate: true, Renew: true,
		Roots: []string{"R0"}, Props: p, Depth: 6}
	if tier == "thorough" {
		o.Depth = 8
		o.Roots = []string{"R0", "R1", "R2", "R3"}
	}
	return o
}

func init() {
	register(&Check{ID: "C13", Level: "model_checking", Workers: 16,
		Rule:        "explicit-state DFS (iterative deepening) over the lifecycle alphabet on flat snapshots of the real application; every distinct reachable state is checked against the referential-integrity clauses; non-trivial = distinct states holding at least one completed shard",
		Assumptions: lifeAssumptions,
		Scenarios: func(tier string) []*engine.Scenario {
			return []*engine.Scenario{LifeScenario(baseLife("C13", tier, props("C13")))}
		}})
	for _, id := range []string{"C04", "C06", "C07"} {
		id := id
		register(&Check{ID: id, Level: "model_checking", Workers: 16,
			Rule:        "explicit-state DFS (iterative deepening) over the lifecycle alphabet on flat snapshots of the real application; escrow ledgers are recomputed from the records in every state and every transition's bank flows are compared with the change of the records; non-trivial = distinct states holding at least one completed shard",
			Assumptions: lifeAssumptions,
			Scenarios: func(tier string) []*engine.Scenario {
				return []*engine.Scenario{LifeScenario(baseLife(id, tier, props(id)))}
			}})
	}
	for _, id := range []string{"C05", "C11", "C12", "C16"} {
		id := id
		register(&Check{ID: id, Level: "model_checking", Workers: 16,
			Rule:        "explicit-state DFS (iterative deepening) over (a) the lifecycle alphabet and (b) the fault-sequence scenarios (every assigned provider completes or stays silent at every timeout interval) on flat snapshots of the real application; step and state clauses of the property are evaluated on every transition/state; non-trivial = distinct states holding at least one completed shard",
			Assumptions: lifeAssumptions,
			Scenarios: func(tier string) []*engine.Scenario {
				o := baseLife(id, tier, props(id))
				if id == "C16" || id == "C05" {
					o.Update, o.ForcePush = true, id == "C16"
					o.Migrate, o.Claim = false, false
				}
				return append([]*engine.Scenario{LifeScenario(o)}, TimeoutFamily(id, tier, props(id))...)
			}})
	}
	register(&Check{ID: "C14", Level: "model_checking", Workers: 16,
		Rule:        "explicit-state DFS (iterative deepening) over the lifecycle alphabet on flat snapshots of the real application; every distinct reachable state is checked against the aggregate-accounting equalities; non-trivial = distinct states holding at least one completed shard",
		Assumptions: lifeAssumptions,
		Scenarios: func(tier string) []*engine.Scenario {
			return []*engine.Scenario{LifeScenario(baseLife("C14", tier, props("C14")))}
		}})
}
