package checks

import (
	"fmt"
	"saomc/engine"
	"saomc/world"
)

// Check describes one registered property check.
type Check struct {
	ID          string
	Level       string // evidence level
	Rule        string // how cases are enumerated and what counts as non-trivial
	Assumptions []string
	Workers     int
	// Scenarios lists the engine-X explorations of the check for a tier.
	Scenarios func(tier string) []*engine.Scenario
	// Extra runs non-engine-X legs (engine R / engine E); may be nil.
	Extra        func(tier string, shard, of int) ExtraResult
	ExtraWorkers int
	// MustSucceed lists operation kinds that have to succeed at least once in the exploration; otherwise the run is
	// vacuous for this property and the check exits 2.
	MustSucceed []string
	// Conform selects how many explorer traces are replayed through the real ABCI pipeline.
	Conform func(tier string) int
}

type ExtraResult struct {
	Evaluations int
	Distinct    int
	Findings    []engine.Finding
	Samples     []interface{}
	Notes       map[string]interface{}
	Exhaustive  bool
}

type Env struct {
	Tier    string
	Workers int
}

var Registry = map[string]*Check{}

func register(c *Check) { Registry[c.ID] = c }

func props(ids ...string) map[string]bool {
	m := map[string]bool{}
	for _, i := range ids {
		m[i] = true
	}
	return m
}

// lifeMust: operation kinds every check built on the lifecycle family has to see succeed at least once (a kind that is
// always rejected means a path the scenarios were built for is not reached: the run is reported as vacuous)
var lifeMust = []string{"store", "store-pending", "ready", "store-sponsored", "complete", "renew", "terminate", "migrate", "end"}

var lifeAssumptions = []string{
	"SDK modules (bank, auth, staking, params) and Tendermint are trusted",
	"handlers are driven through MsgServiceRouter on a branched store with a finite gas meter, as baseapp.runMsgs does; ante handler and signature checks are exercised only in the ABCI conformance leg",
	"height jumps skip only heights whose custom end-blockers are no-ops (checked dynamically at the first and last skipped height of every jump)",
	"values outside the parameter menus (sizes, durations, replica counts, more providers/models) are not covered",
}

// baseLife returns the common lifecycle options of the C13/C14/C04.. family for a tier.
func baseLife(id, tier string, p map[string]bool) LifeOpts {
	o := LifeOpts{ID: id + "-life", Cfg: world.Config{}, SPs: []int{world.S1, world.S2, world.S3}, Capacity: 10_000_000,
		DataIds: []string{world.Data1}, Sizes: []uint64{10000}, Replicas: []int32{2}, Durations: []uint64{3600}, Timeouts: []int32{100},
		RenewDur: []uint64{7200}, Migrate: true, Claim: true, Cancel: true, Terminate: true, Renew: true,
		Roots: []string{"R0"}, Props: p, Depth: 6}
	if tier == "thorough" {
		o.Depth = 8
		o.Roots = []string{"R0", "R1", "R2", "R3"}
	}
	return o
}

// r1Life: one replica, two providers, rounding-relevant size, both duration orders (renewal shorter and
// longer than the current period), debt creation (drain) and capacity changes: reaches deeper histories.
func r1Life(id, tier string, p map[string]bool) LifeOpts {
	o := LifeOpts{ID: id + "-life-r1", Cfg: world.Config{}, SPs: []int{world.S1, world.S2}, Capacity: 10_000_000,
		DataIds: []string{world.Data1}, Sizes: []uint64{1_000_000}, Replicas: []int32{1}, Durations: []uint64{7200}, Timeouts: []int32{100},
		RenewDur: []uint64{3600, 7200}, Migrate: true, Claim: true, Terminate: true, Renew: true, Drain: true,
		Roots: []string{"R0"}, Props: p, Depth: 7}
	if tier == "thorough" {
		o.Depth = 9
		o.Durations = []uint64{3600, 7200}
		o.Cancel = true
		o.Mid = true
	}
	return o
}

// capLife: capacity pledge changes (add / remove around the free-capacity and rounding boundaries) interleaved
// with store / complete / terminate / expiry.
func capLife(id, tier string, p map[string]bool) LifeOpts {
	o := LifeOpts{ID: id + "-life-cap", Cfg: world.Config{}, SPs: []int{world.S1, world.S2}, Capacity: 3_000_000,
		DataIds: []string{world.Data1}, Sizes: []uint64{1_000_001}, Replicas: []int32{1}, Durations: []uint64{3600}, Timeouts: []int32{100},
		RenewDur: []uint64{3600}, Terminate: true, RemoveCap: true, Roots: []string{"R0"}, Props: p, Depth: 6}
	if tier == "thorough" {
		o.Depth = 8
		o.Renew, o.Migrate = true, true
	}
	return o
}

func lifeFamily(id, tier string, p map[string]bool, tweak func(kind string, o *LifeOpts)) []*engine.Scenario {
	a, b := baseLife(id, tier, p), r1Life(id, tier, p)
	a.Regenesis, b.Regenesis = true, true
	a.Unnamed, b.Unnamed = true, true
	if tweak != nil {
		tweak("r2", &a)
		tweak("r1", &b)
	}
	// c: start from non-initial states (completed + renewed with top-up; migration pending)
	c := baseLife(id, tier, p)
	c.ID = id + "-life-rooted"
	c.Roots = []string{"R2", "R3"}
	c.Update, c.Cancel = true, true // updates (and their cancellation / timeout rollback) on top of a renewed model
	c.Depth = 5
	if tier == "thorough" {
		c.Depth = 7
	}
	if tweak != nil {
		tweak("rooted", &c)
	}
	if tier == "thorough" {
		a.Roots = []string{"R0", "R1"}
	}
	// d: start from a state with recorded collateral debt (renewed shard migrated to a provider without funds)
	dd := r1Life(id, tier, p)
	dd.ID = id + "-life-debt"
	dd.Roots = []string{"R5", "R6"}
	dd.RenewDur = []uint64{7200, 3600}
	dd.Depth = 4
	if tier == "thorough" {
		dd.Depth = 6
	}
	if tweak != nil {
		tweak("debt", &dd)
	}
	// e: two data models sharing the providers (capacity, worker accumulators, schedule entries with two ids)
	e := r1Life(id, tier, p)
	e.ID = id + "-life-2models"
	e.DataIds = []string{world.Data1, world.Data2}
	e.Durations = []uint64{3600}
	e.RenewDur = []uint64{3600}
	e.Drain, e.Migrate = false, false
	e.Roots = []string{"R0", "R7"}
	e.Depth = 5
	if tier == "thorough" {
		e.Depth = 7
		e.Migrate = true
	}
	if tweak != nil {
		tweak("2models", &e)
	}
	// f: every operation of the alphabet enabled at once, shallow, from four rich roots (completed; completed and renewed
	// with top-up; migration pending; collateral debt recorded)
	f := baseLife(id, tier, p)
	f.ID = id + "-life-all"
	f.Roots = []string{"R1", "R2", "R3", "R5"}
	f.Update, f.ForcePush, f.Cancel, f.Migrate, f.Renew, f.Claim, f.Terminate = true, true, true, true, true, true, true
	f.Drain, f.RemoveCap, f.Pending, f.BadBases = true, true, true, true
	f.RenewDur = []uint64{3600, 7200}
	f.Depth = 3
	if tier == "thorough" {
		f.Depth = 5
	}
	if tweak != nil {
		tweak("all", &f)
	}
	// g: one of the three providers holds the super role (first pick of every order, round-robin cursor, ignore lists
	// applied to the super node as well)
	g := baseLife(id, tier, p)
	g.ID = id + "-life-super"
	g.Cfg = world.Config{TwoValidators: true, VstorageThresh: 1_000_000}
	g.SuperS1 = true
	g.Update, g.Cancel = true, true
	g.Depth = 5
	if tier == "thorough" {
		g.Depth = 7
	}
	if tweak != nil {
		tweak("super", &g)
	}
	// h: every order is paid by another DID than its owner (charge, refund and settlement follow the payer)
	hh := r1Life(id, tier, p)
	hh.ID = id + "-life-paid-by-other"
	hh.NoPlain = true
	hh.Cancel, hh.Drain, hh.Migrate = true, false, false
	hh.Depth = 5
	if tier == "thorough" {
		hh.Depth = 7
		hh.Migrate = true
	}
	if tweak != nil {
		tweak("paid-by-other", &hh)
	}
	// i: the two-step path — the owner's own account submits the request (order stays pending, nothing assigned), the
	// gateway picks it up with MsgReady at any later height (midpoint jumps: before and after created+timeout)
	pi := r1Life(id, tier, p)
	pi.ID = id + "-life-pending"
	pi.SidOwner, pi.Pending, pi.Mid, pi.Cancel, pi.Update = true, true, true, true, true
	pi.Drain, pi.Migrate, pi.Renew, pi.Claim = false, false, false, false
	pi.Depth = 6
	if tier == "thorough" {
		pi.Depth = 8
		pi.Renew = true
	}
	if tweak != nil {
		tweak("pending", &pi)
	}
	// j: sizes at the bottom of the price scale (collateral, income and refunds round to zero or one coin)
	tiny := r1Life(id, tier, p)
	tiny.ID = id + "-life-tiny"
	tiny.Sizes = []uint64{1, 333}
	tiny.Durations = []uint64{3600}
	tiny.Drain = false
	tiny.Depth = 5
	if tier == "thorough" {
		tiny.Depth = 7
		tiny.Sizes = []uint64{1, 333, 277_778}
	}
	if tweak != nil {
		tweak("tiny", &tiny)
	}
	return []*engine.Scenario{LifeScenario(a), LifeScenario(b), LifeScenario(c), LifeScenario(dd), LifeScenario(e), LifeScenario(f), LifeScenario(g), LifeScenario(hh), LifeScenario(pi), LifeScenario(tiny)}
}

func init() {
	const lifeRule = "explicit-state DFS (iterative deepening) on flat snapshots of the real application over (a) the lifecycle alphabet with 2 replicas / 3 providers, (b) the lifecycle alphabet with 1 replica / 2 providers incl. debt creation and both renewal lengths%s; step and state clauses of the property are evaluated on every transition / state; non-trivial = distinct states holding at least one completed shard"
	toRule := fmt.Sprintf(lifeRule, ", (c) fault-sequence scenarios (every assigned provider completes or stays silent at every timeout interval, optional late joiner / update / cancel / migration)")
	plainRule := fmt.Sprintf(lifeRule, "")
	reg := func(id string, withTO bool, tweak func(kind string, o *LifeOpts)) {
		rule := plainRule
		if withTO {
			rule = toRule
		}
		register(&Check{ID: id, Level: "model_checking", Workers: 16, Rule: rule, Assumptions: lifeAssumptions,
			MustSucceed: lifeMust,
			Scenarios: func(tier string) []*engine.Scenario {
				out := lifeFamily(id, tier, props(id), tweak)
				if withTO {
					out = append(out, TimeoutFamily(id, tier, props(id))...)
				}
				return out
			}})
	}
	reg("C04", true, func(k string, o *LifeOpts) {
		if k == "r1" {
			o.Mid = true
		}
	})
	register(&Check{ID: "C06", Level: "model_checking", Workers: 16, Rule: fmt.Sprintf(lifeRule, ", (c) sponsored orders whose owner DID has no payment address (refunds parked for the DID)"), Assumptions: lifeAssumptions, MustSucceed: lifeMust,
		Scenarios: func(tier string) []*engine.Scenario {
			out := lifeFamily("C06", tier, props("C06"), nil)
			sp := r1Life("C06", tier, props("C06"))
			sp.ID = "C06-life-sponsored"
			sp.NoOwnerPA, sp.NoPlain, sp.Drain, sp.Migrate, sp.Renew = true, true, false, false, false
			sp.Cancel = true
			sp.Depth = 5
			out = append(out, LifeScenario(sp))
			return append(out, TimeoutFamily("C06", tier, props("C06"))...)
		}})
	for _, id := range []string{"C07", "C14"} {
		id := id
		register(&Check{ID: id, Level: "model_checking", Workers: 16, Rule: fmt.Sprintf(lifeRule, ", (c) capacity pledge add/remove around the free-capacity and rounding boundaries interleaved with store/complete/terminate/expiry"), Assumptions: lifeAssumptions, MustSucceed: lifeMust,
			Scenarios: func(tier string) []*engine.Scenario {
				out := append(lifeFamily(id, tier, props(id), nil), LifeScenario(capLife(id, tier, props(id))))
				return append(out, TimeoutFamily(id, tier, props(id))...)
			}})
	}
	register(&Check{ID: "C15", Level: "exploration", Workers: 16, MustSucceed: lifeMust,
		Rule:        "engine E: RandomIndex for all (total<=9, count<total) x seeds {0..N} u {2^k} u big values, and RandomSP for all node populations (multisets over 11 attribute classes, both store orders) x ignore lists (size<=2) x count 1..4 x cursor {unset,0..5} x 10 seeds, each result checked for distinctness, ignore-list, eligibility and size; engine X: every shard assignment made by store/timeout/migrate in the lifecycle and fault-sequence explorations; distinct_nontrivial = distinct (index tuple) + (count/eligible/returned) outcomes + states with a completed shard",
		Assumptions: append([]string{"populations larger than 5 nodes and attribute values outside the 11 classes are not covered"}, lifeAssumptions...),
		Scenarios: func(tier string) []*engine.Scenario {
			out := append(lifeFamily("C15", tier, props("C15"), nil), TimeoutFamily("C15", tier, props("C15"))...)
			// capacity withdrawn between versions: force-push / update must still place shards on eligible providers
			fp := capLife("C15", tier, props("C15"))
			fp.ID = "C15-life-cap-forcepush"
			fp.ForcePush, fp.Update = true, true
			fp.Depth = 5
			return append(out, LifeScenario(fp))
		},
		Extra: func(tier string, shard, of int) ExtraResult { return SelectExtra(tier, shard, of, "C15") }})
	register(&Check{ID: "C02", Level: "model_checking", Workers: 16, MustSucceed: lifeMust,
		Rule:        "engine X with halt reporting: every EndBegin (custom end-blockers + node begin-blocker) of the lifecycle, capacity and fault-sequence explorations, with rewards off and on, must return without panic and within the CPU watchdog; every tx that panics must be a rejected tx (checked against real DeliverTx in the conformance leg); engine E: RandomIndex / RandomSP / GetNextSuperNodes under the CPU guard over the enumerated inputs; non-trivial = distinct states holding at least one completed shard",
		Assumptions: append([]string{"bounded time is decided by a CPU watchdog (25 CPU-seconds per transition, slowest terminating transition is milliseconds), not by a termination proof"}, lifeAssumptions...),
		Scenarios: func(tier string) []*engine.Scenario {
			out := lifeFamily("C02", tier, props("C02"), nil)
			out = append(out, LifeScenario(capLife("C02", tier, props("C02"))))
			out = append(out, TimeoutFamily("C02", tier, props("C02"))...)
			rw := baseLife("C02", tier, props("C02"))
			rw.ID = "C02-life-rewards"
			rw.Cfg = world.Config{BlockReward: 1_000_000, Baseline: 1, HalvingPeriod: 11, AdjustmentPeriod: 11}
			rw.Depth = 4
			rw.RemoveCap = true
			rw.MaxHeight = 200
			out = append(out, LifeScenario(rw))
			for _, sc := range out {
				sc.ReportHalt, sc.HaltProp = true, "C02"
			}
			return out
		},
		Extra: func(tier string, shard, of int) ExtraResult {
			a := SelectExtra(tier, shard, of, "C02")
			b := ConfigExtra(tier, shard, of)
			a.Evaluations += b.Evaluations
			a.Distinct += b.Distinct
			a.Findings = append(a.Findings, b.Findings...)
			a.Samples = append(a.Samples, b.Samples...)
			for k, v := range b.Notes {
				a.Notes[k] = v
			}
			return a
		}})
	register(&Check{ID: "C08", Level: "model_checking", Workers: 16,
		Rule:        "explicit-state DFS (iterative deepening) with node.BeginBlocker executed at every height: {add capacity, remove capacity (round and non-round sizes), claim, store+complete, terminate, next block} by two providers under two parameter sets (pledge above / below baseline); per block: supply delta == coinbase events == reward counter delta <= schedule bound; per state: claimed + claimable per provider vs an independent capacity x blocks reference, sum <= minted; per claim: amount and recipient; non-trivial = distinct states after at least one minting block with a provider share",
		Assumptions: append([]string{"halving ages > 0 are not reached (TotalReward stays far below the 400e12 cap in bounded runs)"}, lifeAssumptions...),
		Scenarios: func(tier string) []*engine.Scenario {
			d := 6
			if tier == "thorough" {
				d = 8
			}
			return []*engine.Scenario{
				RewardScenario(RewardOpts{ID: "C08-above-baseline", Cfg: world.Config{BlockReward: 1_000_000, Baseline: 1, HalvingPeriod: 2000, AdjustmentPeriod: 11}, Depth: d, Store: true}),
				RewardScenario(RewardOpts{ID: "C08-below-baseline", Cfg: world.Config{BlockReward: 1_000_000, Baseline: 1_000_000_000_000_000, HalvingPeriod: 11, AdjustmentPeriod: 11}, Depth: d}),
				// starts four coins short of the first halving, below the baseline, with the pledge-based reward (2-6 coins)
				// between the halved and the full block reward: the schedule bound changes inside the explored depth
				// starts four coins short of the 400e12 cap: minting must stop at the cap, the counter must stay exact
				RewardScenario(RewardOpts{ID: "C08-near-cap", Cfg: world.Config{BlockReward: 3, Baseline: 1, HalvingPeriod: 11, AdjustmentPeriod: 11, GenesisReward: 400_000_000_000_000 - 4}, Depth: d}),
				RewardScenario(RewardOpts{ID: "C08-with-debt", Cfg: world.Config{BlockReward: 8, Baseline: 1, HalvingPeriod: 2000, AdjustmentPeriod: 11}, Depth: d - 1, Debt: true}),
				RewardScenario(RewardOpts{ID: "C08-across-halving", Cfg: world.Config{BlockReward: 3, Baseline: 1_000_000_000_000_000, APY: "1", HalvingPeriod: 11, AdjustmentPeriod: 11, GenesisReward: 200_000_000_000_000 - 4}, Depth: d}),
			}
		}})
	authAssume := []string{"principals: owner, read-write grantee, read-only grantee, stranger (did:key) and a sid owner/attacker pair; relayers: the named gateway and the adversary's own registered node", "signature scheme and DID resolution of the sao-did library are trusted", "SDK modules are trusted"}
	register(&Check{ID: "C09", Level: "model_checking", Workers: 16,
		Rule:        "explicit-state DFS over a small lifecycle (authorised updates by owner / rw grantee, renew, permission change, terminate, completion, blocks) in which EVERY state offers every unauthorised request: {update, force-push, renew, terminate, permission} x signer {ro grantee, stranger, rw grantee for owner-only types} x relayer {named gateway, adversary's node} x crafted commit ids / owner-field mismatch / replayed signatures / sid kid variants; an accepted unauthorised request must leave the model record, alias, orders, shards and expiry entry byte-identical; non-trivial = distinct states with a committed model",
		Assumptions: authAssume,
		MustSucceed: []string{"auth-update-owner", "auth-update-rw", "auth-renew-owner", "auth-terminate-rw", "auth-permission-owner", "auth-terminate-sid-owner", "complete"},
		Scenarios:   func(tier string) []*engine.Scenario { return []*engine.Scenario{C09Scenario(tier)} }})
	register(&Check{ID: "C10", Level: "model_checking", Workers: 16,
		Rule:        "explicit-state DFS over a small lifecycle with an adversary node whose declared TxAddresses range over subsets of {order creator, provider, itself}; in every state every message type with a creator/provider pair is sent by the adversary claiming {itself, the order's gateway, the shard's provider}, plus third-party and sponsor-misuse store submissions; every accepted adversarial message must leave all orders, shards, pledges, nodes, workers, models and all other actors' balances byte-identical; non-trivial = distinct states with a committed model",
		Assumptions: authAssume,
		MustSucceed: []string{"auth-store-gateway", "auth-store-hotkey", "auth-store-sponsor", "auth-store-bound-account", "rotate", "auth-renew", "auth-update-rw", "auth-cancel", "declare", "complete"},
		Scenarios:   func(tier string) []*engine.Scenario { return []*engine.Scenario{C10Scenario(tier)} }})
	register(&Check{ID: "C17", Level: "model_checking", Workers: 16,
		Rule:        "explicit-state DFS over the did alphabet: Binding(account in {A,B,C,eip155 E} x did in {d1,d2} x creator x proof in {valid, stale, signed by another key, proof for the other DID replayed, malformed}), Update (every partition of the account list into remove/keep, by a bound account and by a stranger), UpdatePaymentAddress (sid and key DIDs x creator x account); registry agreement clauses in every state, binding/unbinding/payment-address step clauses on every transition; non-trivial = distinct states with at least one binding",
		Assumptions: []string{"secp256k1 / EIP-191 signature verification is trusted", "three cosmos accounts, one eip155 account, two sid DIDs, two key DIDs"},
		MustSucceed: []string{"bind", "rotate", "payaddr"},
		Scenarios:   func(tier string) []*engine.Scenario { return []*engine.Scenario{C17Scenario(tier)} }})
	register(&Check{ID: "C19", Level: "model_checking", Workers: 16,
		Rule:        "explicit-state DFS from a root with two completed orders: Report(creator in {fishman F1, fishman F2, ordinary node, non-node} x accused in {S1,S2} x fault in {exact, commit matches, wrong order, wrong data id, shard of other provider, nonexistent shard, provider field mismatch, other order}), Recover(creator in {accused, other provider, fishman, ordinary node, non-node}), block advance to the 600-block penalty tick and across expiry; every recorded fault is validated against the pre-state, every report/recover step must leave balances, orders, shards, nodes and other providers' pledges byte-identical; non-trivial = distinct states with at least one fault record",
		Assumptions: []string{"confirmation by a second fishman is unreachable in the current code (reporter comparison is always equal), so confirmed faults and the penalty settlement are not exercised; reported in DESIGN.md", "SDK modules are trusted"},
		MustSucceed: []string{"report", "recover", "migrate", "complete", "end"},
		Scenarios:   func(tier string) []*engine.Scenario { return []*engine.Scenario{C19Scenario(tier)} }})
	rAssume := []string{"Tendermint is replaced by a driver that feeds the same RequestBeginBlock / DeliverTx / EndBlock / Commit stream to both replicas", "the clock and map-iteration seams are std-library overlays applied at build time of the harness binary (go build -overlay); for maps with more than 8 entries the 8 enumerated words are a subset of the runtime's freedom", "non-consensus calls are inserted between consensus calls, not concurrently with them", "cross-architecture floating point (Node.reputation float32) is not examined"}
	register(&Check{ID: "C01", Level: "exploration", ExtraWorkers: 16,
		Rule:        "engine R: scripts (storage lifecycle with every custom message type incl. invalid twins and multi-element map-iteration sites; staking script with a delegation that fails between the two hooks) executed on real applications through ABCI; replica B differs from replica A by exactly one enumerated deviation: wall-clock offset in {-400d,-1h,+1h,+400d}, map-iteration word 1..8, Simulate(tx j) / CheckTx(tx j) / gRPC query inserted at every stream position p for every j (thorough: clock/map word switched at every position); oracle: byte-equal DeliverTx/BeginBlock/EndBlock responses and app hash at every height; distinct_nontrivial = deviations whose inserted call / environment change was actually performed",
		Assumptions: rAssume,
		Extra:       func(tier string, shard, of int) ExtraResult { return ReplicaExtra("C01", tier, shard, of) }})
	register(&Check{ID: "C03", Level: "fault_enumeration", ExtraWorkers: 16,
		Rule:        "engine R: for every script, a restart from the database (new app.New over the same DB, LoadLatestVersion) after every commit, a crash in the middle of every block after every transaction index (instance dropped, block re-executed from the last commit), and Simulate(tx j) inserted at every stream position for every j (residue of merely simulated transactions); thorough: all ordered pairs restart/mid-block crash; oracle: all later consensus responses and app hashes equal those of the uninterrupted replica; distinct_nontrivial = crash / restart / simulation points actually exercised",
		Assumptions: rAssume,
		Extra:       func(tier string, shard, of int) ExtraResult { return ReplicaExtra("C03", tier, shard, of) }})
	register(&Check{ID: "C20", Level: "model_checking", Workers: 16,
		Rule:        "explicit-state DFS over {delegate / undelegate / redelegate by two nodes and an outsider on two validators with amounts below / at / above the share threshold, all, and more than the balance (fails between the hooks); add / remove capacity across the threshold; reset with full or partial status and validator in {unset, V, V2}; full end-blocker of the module manager (validator set updates, unbonding maturity)} from a fresh root and from a root with an existing super node; in every state: role super => full status, pledge >= threshold, own shares / validator shares >= threshold (recomputed through the staking keeper); non-trivial = distinct states with at least one super node",
		Assumptions: []string{"staking, bank and distribution modules are trusted", "two validators, two nodes, one outsider; slashing / jailing is not driven"},
		MustSucceed: []string{"delegate", "undelegate", "redelegate", "reset", "addv", "removev", "fullend"},
		Scenarios:   func(tier string) []*engine.Scenario { return []*engine.Scenario{C20Scenario(tier)} }})
	register(&Check{ID: "C18", Level: "model_checking", Workers: 16, ExtraWorkers: 8,
		Rule:        "explicit-state DFS over the lifecycle (with updates, renewals, migrations), fault-report, staking / super-node and timeout alphabets; in EVERY reached state the six modules' real ExportGenesis -> JSON -> Validate() -> real InitGenesis into empty custom stores, raw comparison of the custom stores, then every enabled operation (and block advance) is applied to both the original and the re-imported state and results, stores and balances are compared; plus the full pipeline ExportAppStateAndValidators -> ValidateGenesis -> InitChain on a fresh application -> two blocks after every block of the engine-R scripts; non-trivial = distinct states with at least one order or fault record",
		Assumptions: []string{"SDK modules' own export/import is trusted; their stores are copied, not round-tripped, in the engine-X leg (they are round-tripped in the full-pipeline leg)", "continuation depth is one operation per state"},
		Scenarios:   func(tier string) []*engine.Scenario { return C18Scenarios(tier) },
		Extra:       func(tier string, shard, of int) ExtraResult { return GenesisExtra(tier, shard, of) }})
	reg("C13", true, nil)
	reg("C11", true, func(k string, o *LifeOpts) {
		if k == "rooted" || k == "r1" {
			o.ForcePush = true // force-push replaces the version: the model's lifetime must follow the new shards
		}
	})
	reg("C12", true, nil)
	upd := func(k string, o *LifeOpts) {
		o.Update = true
		o.Cancel = true
		if k == "r1" {
			o.Drain, o.Claim, o.Migrate = false, false, false
			o.RenewDur = []uint64{3600}
		} else {
			o.Migrate, o.Claim = false, false
		}
	}
	reg("C05", true, upd)
	reg("C16", true, func(k string, o *LifeOpts) { upd(k, o); o.ForcePush = true; o.BadBases = true })
}
