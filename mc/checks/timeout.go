package checks

import (
	"fmt"

	"saomc/engine"
	"saomc/world"

	nodetypes "github.com/SaoNetwork/sao/x/node/types"
	ordertypes "github.com/SaoNetwork/sao/x/order/types"
	saotypes "github.com/SaoNetwork/sao/x/sao/types"
	sdk "github.com/cosmos/cosmos-sdk/types"
)

// TOOpts: fault-sequence scenario — one order handed to providers; at every timeout interval each assigned
// provider either completes or stays silent; optionally a spare provider joins later, or the creator cancels.
type TOOpts struct {
	ID       string
	NSP      int
	Replica  int32
	Timeout  int32
	Duration uint64
	Size     uint64
	Spare    bool // S4 exists without capacity and may join (AddVstorage) at any time
	Update   bool // the order is an update on top of a completed model
	Cancel   bool
	Migrate  bool // after full storage a provider may start a migration
	Term     bool // the owner may terminate the model at any time after the first completion
	Super    bool // the first provider is a super node (first pick of every order, round-robin cursor)
	Sponsor  int  // 1: the order under test is paid by another DID (P) than its owner; 2: same, and the owner DID has no payment address
	Depth    int
	Props    map[string]bool
}

func TimeoutScenario(o TOOpts) *engine.Scenario {
	sps := []int{world.S1, world.S2, world.S3, world.S4}[:o.NSP]
	if o.Size == 0 {
		o.Size = 10000
	}
	sc := &engine.Scenario{ID: o.ID, Depth: o.Depth}
	if o.Super {
		sc.Cfg = world.Config{TwoValidators: true, VstorageThresh: 1_000_000}
	}
	sc.Roots = []engine.Root{{Name: "T0", Setup: func(w *world.World) []engine.SetupStep {
		owners := []int{world.O}
		if o.Sponsor == 1 {
			owners = []int{world.O, world.P}
		} else if o.Sponsor == 2 {
			owners = []int{world.P}
		}
		st := SetupBase(w, owners, []int{world.G}, sps, 10_000_000)
		if o.Super {
			v := sdk.ValAddress(w.A(world.V).Addr).String()
			st = append(st, fixed(Tx("delegate", "delegate(S1,setup)", stakingDelegate(w, world.S1, v, 200_000_000))),
				fixed(Tx("reset", "reset(S1,super,setup)", &nodetypes.MsgReset{Creator: w.A(world.S1).S(), Status: FullStatus, Validator: v})))
		}
		if o.Spare {
			a := w.A(world.S4)
			st = append(st, fixed(Tx("create", "create(S4)", &nodetypes.MsgCreate{Creator: a.S()})),
				fixed(Tx("reset", "reset(S4,full)", &nodetypes.MsgReset{Creator: a.S(), Status: FullStatus})))
		}
		if o.Update {
			st = append(st, fixed(Tx("store", "store(setup)", StoreMsg(w, StoreP{Signer: world.O, Relayer: world.G, Gateway: world.G, DataId: world.Data1, CommitId: world.Data1, Size: o.Size, Replica: 1, Duration: 7200, Timeout: 100}))),
				CompleteNth(1, 0))
		}
		return st
	}}}
	sc.Ops = func(w *world.World, ctx sdk.Context, s *engine.State) []engine.Op {
		var out []engine.Op
		a := w.App
		h := ctx.BlockHeight()
		// the order under test is created by the first explored step (so that the oracles see its creation)
		if cnt := a.OrderKeeper.GetOrderCount(ctx); !o.Update && cnt == 1 && o.Sponsor > 0 {
			return []engine.Op{Tx("store-sponsored", "store-sponsored(order-under-test)", StoreMsg(w, StoreP{Signer: world.O, Relayer: world.P, Gateway: world.G, DataId: world.Data1, CommitId: world.Data1, Size: o.Size, Replica: o.Replica, Duration: o.Duration, Timeout: o.Timeout, PayDid: w.A(world.P).Did}))}
		} else if !o.Update && cnt == 1 {
			return []engine.Op{Tx("store", "store(order-under-test)", StoreMsg(w, StoreP{Signer: world.O, Relayer: world.G, Gateway: world.G, DataId: world.Data1, CommitId: world.Data1, Size: o.Size, Replica: o.Replica, Duration: o.Duration, Timeout: o.Timeout}))}
		} else if o.Update && cnt == 2 {
			m, _ := a.ModelKeeper.GetMetadata(ctx, world.Data1)
			return []engine.Op{Tx("update", "update(order-under-test)", StoreMsg(w, StoreP{Signer: world.O, Relayer: world.G, Gateway: world.G, DataId: world.Data1, CommitId: m.Commit + "|" + commitName(2), Size: o.Size, Replica: o.Replica, Duration: o.Duration, Timeout: o.Timeout, Cid: world.Cid2}))}
		}
		for _, ord := range a.OrderKeeper.GetAllOrder(ctx) {
			if ord.Operation == 3 {
				continue
			}
			if o.Cancel && ord.Status != ordertypes.OrderCompleted {
				out = append(out, Tx("cancel", fmt.Sprintf("cancel(o%d)", ord.Id), &saotypes.MsgCancel{Creator: ord.Creator, Provider: ord.Creator, OrderId: ord.Id}))
			}
			full := true
			for _, sid := range ord.Shards {
				sh, ok := a.OrderKeeper.GetShard(ctx, sid)
				if !ok {
					continue
				}
				if sh.Status == ordertypes.ShardWaiting || sh.Status == ordertypes.ShardMigrating {
					out = append(out, CompleteOp(w, ord.Id, sh))
				}
				if sh.Status == ordertypes.ShardWaiting {
					full = false
				}
			}
			if o.Term && ord.Status == ordertypes.OrderCompleted {
				out = append(out, Tx("terminate", "terminate("+ord.DataId[:2]+")", TerminateMsg(w, world.O, world.G, world.G, ord.DataId)))
			}
			if o.Migrate && full && ord.Status == ordertypes.OrderCompleted {
				for _, sid := range ord.Shards {
					if sh, ok := a.OrderKeeper.GetShard(ctx, sid); ok && sh.Status == ordertypes.ShardCompleted {
						out = append(out, Tx("migrate", fmt.Sprintf("migrate(%s)", w.NameOf(sh.Sp)), &saotypes.MsgMigrate{Creator: sh.Sp, Provider: sh.Sp, Data: []string{ord.DataId}}))
					}
				}
			}
		}
		if o.Spare {
			if _, ok := a.NodeKeeper.GetPledge(ctx, w.A(world.S4).S()); !ok {
				out = append(out, Tx("join", "join(S4)", &nodetypes.MsgAddVstorage{Creator: w.A(world.S4).S(), Size_: 10_000_000}))
			}
		}
		// time passes to the next scheduled height (timeout checks, expiry)
		for _, n := range Interesting(w, ctx) {
			if n >= h {
				out = append(out, End(n))
				break
			}
		}
		return out
	}
	sc.Oracle = NewLifeOracle(o.Props)
	return sc
}

func toName(o TOOpts) string {
	return fmt.Sprintf("to-n%d-r%d-t%d-d%d%s%s%s%s%s", o.NSP, o.Replica, o.Timeout, o.Duration, cmpb(o.Spare, "-spare", ""), cmpb(o.Update, "-upd", ""), cmpb(o.Cancel, "-cancel", ""), cmpb(o.Migrate, "-mig", ""), cmpb(o.Term, "-term", "")+cmpb(o.Super, "-super", "")+cmpb(o.Sponsor == 1, "-sponsored", "")+cmpb(o.Sponsor == 2, "-sponsored-nopa", ""))
}

// TimeoutFamily returns the fault-sequence scenarios of a tier.
func TimeoutFamily(id, tier string, p map[string]bool) []*engine.Scenario {
	var opts []TOOpts
	add := func(o TOOpts) {
		o.Props = p
		o.ID = id + "-" + toName(o)
		opts = append(opts, o)
	}
	// quick: the combinations that reach re-assignment, give-up (cancel and replica reduction) and the guard
	add(TOOpts{NSP: 2, Replica: 1, Timeout: 10, Duration: 3600, Depth: 17})
	add(TOOpts{NSP: 3, Replica: 2, Timeout: 10, Duration: 3600, Term: true, Depth: 17})
	add(TOOpts{NSP: 2, Replica: 2, Timeout: 10, Duration: 3600, Spare: true, Depth: 17})
	add(TOOpts{NSP: 2, Replica: 1, Timeout: 10, Duration: 3600, Update: true, Cancel: true, Depth: 16})
	add(TOOpts{NSP: 2, Replica: 1, Timeout: 1800, Duration: 3600, Depth: 5})
	add(TOOpts{NSP: 4, Replica: 2, Timeout: 100, Duration: 3600, Migrate: true, Depth: 8})
	add(TOOpts{NSP: 3, Replica: 2, Timeout: 1200, Duration: 3600, Migrate: true, Depth: 6})
	add(TOOpts{NSP: 2, Replica: 2, Timeout: 10, Duration: 3600, Super: true, Depth: 17})
	add(TOOpts{NSP: 2, Replica: 1, Timeout: 10, Duration: 3600, Size: 1_000_000, Sponsor: 1, Cancel: true, Depth: 17})
	add(TOOpts{NSP: 2, Replica: 1, Timeout: 10, Duration: 3600, Size: 1_000_000, Sponsor: 2, Cancel: true, Depth: 17})
	if tier == "thorough" {
		add(TOOpts{NSP: 4, Replica: 2, Timeout: 10, Duration: 3600, Depth: 17})
		add(TOOpts{NSP: 3, Replica: 2, Timeout: 10, Duration: 3600, Spare: true, Cancel: true, Depth: 17})
		add(TOOpts{NSP: 3, Replica: 2, Timeout: 10, Duration: 3600, Update: true, Depth: 17})
		add(TOOpts{NSP: 3, Replica: 1, Timeout: 400, Duration: 3600, Depth: 14})
		add(TOOpts{NSP: 3, Replica: 2, Timeout: 3600, Duration: 7200, Depth: 5})
		add(TOOpts{NSP: 4, Replica: 2, Timeout: 100, Duration: 3600, Migrate: true, Depth: 9})
		add(TOOpts{NSP: 2, Replica: 2, Timeout: 300, Duration: 3600, Spare: true, Depth: 17})
	}
	var out []*engine.Scenario
	for _, o := range opts {
		out = append(out, TimeoutScenario(o))
	}
	return out
}
