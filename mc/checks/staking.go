package checks

import (
	"fmt"

	"saomc/engine"
	"saomc/world"

	nodetypes "github.com/SaoNetwork/sao/x/node/types"
	sdk "github.com/cosmos/cosmos-sdk/types"
	stakingtypes "github.com/cosmos/cosmos-sdk/x/staking/types"
	abci "github.com/tendermint/tendermint/abci/types"
)

// C20: super-node role. Validators V, V2; nodes N1 = S1, N2 = S2; outsider T.

type SuperOracle struct{}

func (SuperOracle) InitGhost(*world.World, sdk.Context) engine.Ghost { return nullGhost{} }

func superPredicate(w *world.World, ctx sdk.Context, n nodetypes.Node) string {
	k := w.App.NodeKeeper
	if n.Status&nodetypes.NODE_STATUS_SUPER_REQUIREMENT != nodetypes.NODE_STATUS_SUPER_REQUIREMENT {
		return "status-not-full"
	}
	p, ok := k.GetPledge(ctx, n.Creator)
	if !ok || p.TotalStorage < k.VstorageThreshold(ctx) {
		return "pledge-below-threshold"
	}
	if n.Validator == "" {
		return "no-declared-validator"
	}
	va, err := sdk.ValAddressFromBech32(n.Validator)
	if err != nil {
		return "bad-validator-address"
	}
	v, ok := w.App.StakingKeeper.GetValidator(ctx, va)
	if !ok {
		return "validator-does-not-exist"
	}
	d, ok := w.App.StakingKeeper.GetDelegation(ctx, sdk.MustAccAddressFromBech32(n.Creator), va)
	if !ok {
		return "no-delegation-to-declared-validator"
	}
	if v.DelegatorShares.IsZero() || d.Shares.Quo(v.DelegatorShares).LT(k.ShareThreshold(ctx)) {
		return "share-below-threshold"
	}
	return ""
}

func (SuperOracle) State(w *world.World, ctx sdk.Context, s *engine.State) []engine.Finding {
	var out []engine.Finding
	for _, n := range w.App.NodeKeeper.GetAllNode(ctx) {
		if n.Role != nodetypes.NODE_SUPER {
			continue
		}
		if why := superPredicate(w, ctx, n); why != "" {
			out = append(out, fd("C20", "super-role-without-requirements", why, fmt.Sprintf("%s has the super role: %s", w.NameOf(n.Creator), why)))
		}
	}
	return out
}

func (SuperOracle) Step(si *engine.StepInfo) []engine.Finding { return nil }

func (SuperOracle) NonTrivial(w *world.World, ctx sdk.Context, s *engine.State) bool {
	for _, n := range w.App.NodeKeeper.GetAllNode(ctx) {
		if n.Role == nodetypes.NODE_SUPER {
			return true
		}
	}
	return false
}

func C20Scenario(tier string) *engine.Scenario {
	d := 4
	if tier == "thorough" {
		d = 5
	}
	sc := &engine.Scenario{ID: "C20-staking", Cfg: world.Config{TwoValidators: true, VstorageThresh: 1_000_000, FastUnbond: true}, Depth: d, Oracle: SuperOracle{}}
	sc.Roots = []engine.Root{{Name: "K0", Setup: func(w *world.World) []engine.SetupStep {
		var st []engine.SetupStep
		for _, i := range []int{world.S1, world.S2} {
			a := w.A(i)
			st = append(st, fixed(Tx("create", "create("+a.Name+")", &nodetypes.MsgCreate{Creator: a.S()})))
		}
		return st
	}}, {Name: "K1", Setup: func(w *world.World) []engine.SetupStep {
		// N1 already super through V (200M of 1200M+), outsider T holds a delegation
		var st []engine.SetupStep
		for _, i := range []int{world.S1, world.S2} {
			a := w.A(i)
			st = append(st, fixed(Tx("create", "create("+a.Name+")", &nodetypes.MsgCreate{Creator: a.S()})))
		}
		v := sdk.ValAddress(w.A(world.V).Addr).String()
		n1 := w.A(world.S1)
		st = append(st,
			fixed(Tx("delegate", "delegate(T,V,100M)", &stakingtypes.MsgDelegate{DelegatorAddress: w.A(world.T).S(), ValidatorAddress: v, Amount: sdk.NewInt64Coin(world.Denom, 100_000_000)})),
			fixed(Tx("delegate", "delegate(N1,V,200M)", &stakingtypes.MsgDelegate{DelegatorAddress: n1.S(), ValidatorAddress: v, Amount: sdk.NewInt64Coin(world.Denom, 200_000_000)})),
			fixed(Tx("addv", "addv(N1)", &nodetypes.MsgAddVstorage{Creator: n1.S(), Size_: 1_000_000})),
			fixed(Tx("reset", "reset(N1,full,V)", &nodetypes.MsgReset{Creator: n1.S(), Status: FullStatus, Validator: v})))
		return st
	}}, {Name: "K2", Setup: func(w *world.World) []engine.SetupStep {
		// two super nodes on different validators: N1 through V (200M of 1700M = 11.8 %), N2 through V2; a delegation of N2
		// to V (not its declared validator) can push N1 below the threshold
		var st []engine.SetupStep
		for _, i := range []int{world.S1, world.S2} {
			a := w.A(i)
			st = append(st, fixed(Tx("create", "create("+a.Name+")", &nodetypes.MsgCreate{Creator: a.S()})))
		}
		v, v2 := sdk.ValAddress(w.A(world.V).Addr).String(), sdk.ValAddress(w.A(world.V2).Addr).String()
		n1, n2 := w.A(world.S1), w.A(world.S2)
		c := func(n int64) sdk.Coin { return sdk.NewInt64Coin(world.Denom, n) }
		st = append(st,
			fixed(Tx("delegate", "delegate(T,V,500M)", &stakingtypes.MsgDelegate{DelegatorAddress: w.A(world.T).S(), ValidatorAddress: v, Amount: c(500_000_000)})),
			fixed(Tx("delegate", "delegate(N1,V,200M)", &stakingtypes.MsgDelegate{DelegatorAddress: n1.S(), ValidatorAddress: v, Amount: c(200_000_000)})),
			fixed(Tx("addv", "addv(N1)", &nodetypes.MsgAddVstorage{Creator: n1.S(), Size_: 1_000_000})),
			fixed(Tx("reset", "reset(N1,full,V)", &nodetypes.MsgReset{Creator: n1.S(), Status: FullStatus, Validator: v})),
			fixed(Tx("delegate", "delegate(N2,V2,200M)", &stakingtypes.MsgDelegate{DelegatorAddress: n2.S(), ValidatorAddress: v2, Amount: c(200_000_000)})),
			fixed(Tx("addv", "addv(N2)", &nodetypes.MsgAddVstorage{Creator: n2.S(), Size_: 1_000_000})),
			fixed(Tx("reset", "reset(N2,full,V2)", &nodetypes.MsgReset{Creator: n2.S(), Status: FullStatus, Validator: v2})))
		return st
	}}}
	sc.Ops = func(w *world.World, ctx sdk.Context, s *engine.State) []engine.Op {
		var out []engine.Op
		vals := map[string]string{"V": sdk.ValAddress(w.A(world.V).Addr).String(), "V2": sdk.ValAddress(w.A(world.V2).Addr).String()}
		who := []int{world.S1, world.S2, world.T}
		name := map[int]string{world.S1: "N1", world.S2: "N2", world.T: "T"}
		coin := func(n int64) sdk.Coin { return sdk.NewInt64Coin(world.Denom, n) }
		amts := []int64{60_000_000, 130_000_000, 400_000_000}
		for _, i := range who {
			for _, a := range amts {
				out = append(out, Tx("delegate", fmt.Sprintf("delegate(%s,V,%dM)", name[i], a/1_000_000), &stakingtypes.MsgDelegate{DelegatorAddress: w.A(i).S(), ValidatorAddress: vals["V"], Amount: coin(a)}))
			}
			for _, vn := range []string{"V", "V2"} {
				if d, ok := w.App.StakingKeeper.GetDelegation(ctx, w.A(i).Addr, sdk.ValAddress(w.A(map[string]int{"V": world.V, "V2": world.V2}[vn]).Addr)); ok {
					v, _ := w.App.StakingKeeper.GetValidator(ctx, d.GetValidatorAddr())
					all := v.TokensFromShares(d.Shares).TruncateInt()
					for _, a := range uniq64([]int64{60_000_000, all.Int64()}) {
						if a > 0 && a <= all.Int64() {
							out = append(out, Tx("undelegate", fmt.Sprintf("undelegate(%s,%s,%dM)", name[i], vn, a/1_000_000), &stakingtypes.MsgUndelegate{DelegatorAddress: w.A(i).S(), ValidatorAddress: vals[vn], Amount: coin(a)}))
						}
					}
					if vn == "V" {
						out = append(out, Tx("redelegate", fmt.Sprintf("redelegate(%s,V->V2,%dM)", name[i], all.Int64()/2_000_000), &stakingtypes.MsgBeginRedelegate{DelegatorAddress: w.A(i).S(), ValidatorSrcAddress: vals["V"], ValidatorDstAddress: vals["V2"], Amount: coin(all.Int64() / 2)}))
					}
				}
			}
		}
		out = append(out,
			Tx("delegate", "delegate(N1,V2,130M)", &stakingtypes.MsgDelegate{DelegatorAddress: w.A(world.S1).S(), ValidatorAddress: vals["V2"], Amount: coin(130_000_000)}),
			Tx("delegate-fail", "delegate(T,V,2e12>balance)", &stakingtypes.MsgDelegate{DelegatorAddress: w.A(world.T).S(), ValidatorAddress: vals["V"], Amount: coin(2_000_000_000_000)}))
		for _, i := range []int{world.S1, world.S2} {
			a := w.A(i)
			out = append(out,
				Tx("addv", fmt.Sprintf("addv(%s,1M)", name[i]), &nodetypes.MsgAddVstorage{Creator: a.S(), Size_: 1_000_000}),
				Tx("removev", fmt.Sprintf("removev(%s,1M)", name[i]), &nodetypes.MsgRemoveVstorage{Creator: a.S(), Size_: 1_000_000}),
				Tx("reset", fmt.Sprintf("reset(%s,full)", name[i]), &nodetypes.MsgReset{Creator: a.S(), Status: FullStatus}))
		}
		n1 := w.A(world.S1)
		out = append(out,
			Tx("reset", "reset(N1,full,V)", &nodetypes.MsgReset{Creator: n1.S(), Status: FullStatus, Validator: vals["V"]}),
			Tx("reset", "reset(N1,full,V2)", &nodetypes.MsgReset{Creator: n1.S(), Status: FullStatus, Validator: vals["V2"]}),
			Tx("reset", "reset(N1,online-only)", &nodetypes.MsgReset{Creator: n1.S(), Status: nodetypes.NODE_STATUS_ONLINE}),
			Tx("reset", "reset(N2,full,V2)", &nodetypes.MsgReset{Creator: w.A(world.S2).S(), Status: FullStatus, Validator: vals["V2"]}),
			Tx("delegate", "delegate(N2,V2,130M)", &stakingtypes.MsgDelegate{DelegatorAddress: w.A(world.S2).S(), ValidatorAddress: vals["V2"], Amount: coin(130_000_000)}))
		h := ctx.BlockHeight()
		out = append(out, engine.Op{Label: fmt.Sprintf("fullend@%d", h), Kind: "fullend", Meta: map[string]string{"advance": "1"},
			Custom: func(w *world.World, c sdk.Context) world.Result {
				// the whole module manager's end-blocker: staking validator-set updates and unbonding maturity included
				w.App.EndBlocker(c.WithEventManager(sdk.NewEventManager()), abci.RequestEndBlock{Height: h})
				return world.Result{OK: true}
			}})
		return out
	}
	return sc
}
