package checks

import (
	"fmt"
	"strings"

	"saomc/engine"
	"saomc/world"

	nodetypes "github.com/SaoNetwork/sao/x/node/types"
	ordertypes "github.com/SaoNetwork/sao/x/order/types"
	saotypes "github.com/SaoNetwork/sao/x/sao/types"
	"github.com/cosmos/cosmos-sdk/store/prefix"
	sdk "github.com/cosmos/cosmos-sdk/types"
)

// C19: fault reports. Fishmen F1 = actor W, F2 = actor Q (registered nodes listed in FishmenInfo); ordinary
// node N = gateway G; non-node X. Accused providers S1, S2.

type faultIdx struct {
	ById   map[string]nodetypes.Fault // fault id -> record
	BySp   map[string]string          // provider/shard -> fault id
	Reward map[string]string
}

func takeFaults(w *world.World, ctx sdk.Context) *faultIdx {
	fi := &faultIdx{ById: map[string]nodetypes.Fault{}, BySp: map[string]string{}, Reward: map[string]string{}}
	for _, f := range AllFaults(w, ctx) {
		fi.ById[f.FaultId] = f
	}
	st := prefix.NewStore(ctx.KVStore(w.KeyOf("node")), nodetypes.KeyPrefix(nodetypes.FaultKeyPrefix))
	it := st.Iterator(nil, nil)
	for ; it.Valid(); it.Next() {
		fi.BySp[fmt.Sprintf("%x", it.Key())] = string(it.Value())
	}
	it.Close()
	rs := prefix.NewStore(ctx.KVStore(w.KeyOf("node")), nodetypes.KeyPrefix(nodetypes.FishingRewardKey))
	it2 := rs.Iterator(nil, nil)
	for ; it2.Valid(); it2.Next() {
		fi.Reward[string(it2.Key())] = string(it2.Value())
	}
	it2.Close()
	return fi
}

func faultsOf(w *world.World, ctx sdk.Context, s *engine.State) *faultIdx {
	if s.Memo == nil {
		s.Memo = map[string]interface{}{}
	}
	if v, ok := s.Memo["faults"]; ok {
		return v.(*faultIdx)
	}
	f := takeFaults(w, ctx)
	s.Memo["faults"] = f
	return f
}

type FaultOracle struct{ Fishmen []int }

func (FaultOracle) InitGhost(*world.World, sdk.Context) engine.Ghost { return nullGhost{} }

func (FaultOracle) State(w *world.World, ctx sdk.Context, s *engine.State) []engine.Finding {
	var out []engine.Finding
	fi := faultsOf(w, ctx, s)
	for _, k := range sortedKeys(fi.BySp) {
		id := fi.BySp[k]
		if _, ok := fi.ById[id]; !ok {
			out = append(out, fd("C19", "fault-index-dangling", "", fmt.Sprintf("provider/shard index entry %s names fault %q which has no record", k, id)))
		}
	}
	return out
}

func (o FaultOracle) Step(si *engine.StepInfo) []engine.Finding {
	if si.Post == nil {
		return nil
	}
	var out []engine.Finding
	w := si.W
	pre, post := snapOf(w, si.PreCtx, si.Pre), snapOf(w, si.PostCtx, si.Post)
	fp, fq := faultsOf(w, si.PreCtx, si.Pre), faultsOf(w, si.PostCtx, si.Post)
	isFaultOp := si.Op.Kind == "report" || si.Op.Kind == "recover"
	creator := ""
	if si.Op.Msg != nil {
		creator = si.Op.Msg.GetSigners()[0].String()
	}
	fishman := false
	for _, f := range o.Fishmen {
		if w.A(f).S() == creator {
			fishman = true
		}
	}
	_, isNode := pre.Nodes[creator]
	for _, id := range sortedKeys(fq.ById) {
		f := fq.ById[id]
		old, had := fp.ById[id]
		if !had {
			// a fault record appeared
			if si.Op.Kind != "report" {
				out = append(out, fd("C19", "fault-recorded-by-other-operation", si.Op.Kind, fmt.Sprintf("%s recorded fault %+v", si.Op.Label, f)))
				continue
			}
			if !fishman || !isNode {
				out = append(out, fd("C19", "fault-recorded-for-non-fishman", cmpb(isNode, "ordinary-node", "non-node"), fmt.Sprintf("%s: reporter %s is not a fishman node", si.Op.Label, w.NameOf(creator))))
			}
			why := ""
			sh, ok := pre.Shards[f.ShardId]
			ord, ok2 := pre.Orders[f.OrderId]
			switch {
			case !ok:
				why = "shard-does-not-exist"
			case sh.Sp != f.Provider:
				why = "shard-held-by-another-provider"
			case !ok2:
				why = "order-does-not-exist"
			case !contains(ord.Shards, f.ShardId):
				why = "shard-not-in-named-order"
			case ord.DataId != f.DataId:
				why = "data-id-mismatch"
			case sh.Status != ordertypes.ShardCompleted || int64(sh.CreatedAt+sh.Duration) <= pre.H:
				why = "shard-expired-or-not-stored"
			}
			if _, okm := pre.Metas[f.DataId]; !okm && why == "" {
				why = "model-does-not-exist"
			}
			if why != "" {
				out = append(out, fd("C19", "invalid-fault-recorded", why, fmt.Sprintf("%s recorded fault (provider %s, order %d, data %s, shard %d): %s", si.Op.Label, w.NameOf(f.Provider), f.OrderId, f.DataId[:2], f.ShardId, why)))
			}
			continue
		}
		if old.Status != f.Status && f.Status == nodetypes.FaultStatusRecovering {
			if si.Op.Kind != "recover" || creator != f.Provider {
				out = append(out, fd("C19", "recovery-declared-by-other-than-accused", "", fmt.Sprintf("%s set fault %s (provider %s) to recovering; sender %s", si.Op.Label, id, w.NameOf(f.Provider), w.NameOf(creator))))
			}
		}
		if fmt.Sprint(old) != fmt.Sprint(f) && !(fishman && isNode) && creator != old.Provider {
			out = append(out, fd("C19", "fault-record-changed-by-third-party", si.Op.Kind, fmt.Sprintf("%s by %s changed fault %s recorded against %s", si.Op.Label, w.NameOf(creator), id, w.NameOf(old.Provider))))
		}
		if old.Status != f.Status && f.Status == nodetypes.FaultStatusConfirmed && (!fishman || !isNode) {
			out = append(out, fd("C19", "fault-confirmed-by-non-fishman", "", fmt.Sprintf("%s confirmed fault %s", si.Op.Label, id)))
		}
	}
	for _, id := range sortedKeys(fp.ById) {
		if _, still := fq.ById[id]; !still && isFaultOp && !(fishman && isNode) && creator != fp.ById[id].Provider {
			out = append(out, fd("C19", "fault-cleared-by-non-fishman", "", fmt.Sprintf("%s removed fault %s", si.Op.Label, id)))
		}
	}
	if isFaultOp {
		// filing / clearing reports never changes balances, orders, shards or other providers' pledges
		accused := ""
		switch m := si.Op.Msg.(type) {
		case *saotypes.MsgReportFaults:
			accused = m.Provider
		case *saotypes.MsgRecoverFaults:
			accused = m.Provider
		}
		if len(si.Res.Flows) > 0 {
			out = append(out, fd("C19", "fault-message-moved-coins", "", fmt.Sprintf("%s caused %d bank transfer(s)", si.Op.Label, len(si.Res.Flows))))
		}
		a := view10(w, si.PreCtx, pre, accused)
		b := view10(w, si.PostCtx, post, accused)
		if a != b {
			out = append(out, fd("C19", "fault-message-changed-other-state", "", fmt.Sprintf("%s changed orders / shards / nodes / other providers' pledges or balances", si.Op.Label)))
		}
		if pp, ok := pre.Pledges[accused]; ok {
			qp := post.Pledges[accused]
			// any penalty is taken from the accused's own reward and collateral and never exceeds them
			if qp.Reward.Amount.IsNegative() || qp.TotalStoragePledged.Amount.IsNegative() || qp.RewardDebt.Amount.IsNegative() {
				out = append(out, fd("C19", "penalty-exceeds-reward-and-collateral", "", fmt.Sprintf("%s left pledge of %s negative: %+v", si.Op.Label, w.NameOf(accused), qp)))
			}
			if qp.TotalStorage != pp.TotalStorage || qp.UsedStorage != pp.UsedStorage || !qp.TotalShardPledged.IsEqual(pp.TotalShardPledged) {
				out = append(out, fd("C19", "fault-message-changed-capacity", "", fmt.Sprintf("%s changed capacity / shard collateral counters of %s", si.Op.Label, w.NameOf(accused))))
			}
			if si.Op.Kind == "report" && !strings.EqualFold(fmt.Sprint(pp), fmt.Sprint(qp)) {
				out = append(out, fd("C19", "report-changed-accused-pledge", "", fmt.Sprintf("%s changed the pledge of %s", si.Op.Label, w.NameOf(accused))))
			}
		}
	}
	return out
}

func (FaultOracle) NonTrivial(w *world.World, ctx sdk.Context, s *engine.State) bool {
	return len(faultsOf(w, ctx, s).ById) > 0
}

func C19Scenario(tier string) *engine.Scenario {
	d := 4
	if tier == "thorough" {
		d = 6
	}
	fish := []int{world.W, world.Q}
	sc := &engine.Scenario{ID: "C19-faults", Cfg: world.Config{Fishmen: fish}, Depth: d, Oracle: FaultOracle{Fishmen: fish}}
	sc.Roots = []engine.Root{{Name: "F0", Setup: func(w *world.World) []engine.SetupStep {
		st := SetupBase(w, []int{world.O}, []int{world.G, world.W, world.Q}, []int{world.S1, world.S2}, 10_000_000)
		// a third provider joins after the stores, so that a shard can be handed over by migration
		st = append(st,
			fixed(Tx("store", "store(11)", StoreMsg(w, StoreP{Signer: world.O, Relayer: world.G, Gateway: world.G, DataId: world.Data1, CommitId: world.Data1, Size: 1000, Replica: 2, Duration: 3600, Timeout: 100}))),
			CompleteNth(1, 0), CompleteNth(1, 0),
			fixed(Tx("store", "store(22)", StoreMsg(w, StoreP{Signer: world.O, Relayer: world.G, Gateway: world.G, DataId: world.Data2, CommitId: world.Data2, Size: 1000, Replica: 1, Duration: 7200, Timeout: 100}))),
			CompleteNth(2, 0))
		st = append(st,
			fixed(Tx("store", "store(33,r2)", StoreMsg(w, StoreP{Signer: world.O, Relayer: world.G, Gateway: world.G, DataId: "33333333-3333-3333-3333-333333333333", CommitId: "33333333-3333-3333-3333-333333333333", Size: 1000, Replica: 2, Duration: 3600, Timeout: 1000}))),
			CompleteNth(3, 0))
		s3 := w.A(world.S3)
		// an ordinary node that has declared every service bit for itself (fishing and indexing included): the status
		// word is self-service, the fishman designation is not
		pn := w.A(world.P)
		st = append(st, fixed(Tx("create", "create(P)", &nodetypes.MsgCreate{Creator: pn.S()})),
			fixed(Tx("reset", "reset(P,all-bits)", &nodetypes.MsgReset{Creator: pn.S(), Status: FullStatus | nodetypes.NODE_STATUS_SERVE_INDEXING | nodetypes.NODE_STATUS_SERVE_FISHING})))
		st = append(st, fixed(Tx("create", "create(S3)", &nodetypes.MsgCreate{Creator: s3.S()})),
			fixed(Tx("reset", "reset(S3,full)", &nodetypes.MsgReset{Creator: s3.S(), Status: FullStatus})),
			fixed(Tx("addv", "addv(S3)", &nodetypes.MsgAddVstorage{Creator: s3.S(), Size_: 10_000_000})))
		return st
	}}}
	sc.Ops = func(w *world.World, ctx sdk.Context, s *engine.State) []engine.Op {
		var out []engine.Op
		a := w.App
		o1, ok1 := a.OrderKeeper.GetOrder(ctx, 1)
		o2, _ := a.OrderKeeper.GetOrder(ctx, 2)
		shardOf := map[string]uint64{}
		if ok1 {
			for _, id := range o1.Shards {
				if sh, ok := a.OrderKeeper.GetShard(ctx, id); ok {
					shardOf[sh.Sp] = id
				}
			}
		}
		s1, s2, s3 := w.A(world.S1).S(), w.A(world.S2).S(), w.A(world.S3).S()
		o3, _ := a.OrderKeeper.GetOrder(ctx, 3)
		type variant struct {
			name string
			f    saotypes.Fault
			prov string
		}
		for _, accused := range []string{s1, s2, s3} {
			other := s1
			if accused == s1 {
				other = s2
			}
			mine, has := shardOf[accused]
			if !has {
				mine = 0
			}
			vs := []variant{
				{"commit-matches", saotypes.Fault{DataId: world.Data1, OrderId: 1, ShardId: mine, CommitId: o1.Commit, Provider: accused}, accused},
				{"wrong-order", saotypes.Fault{DataId: world.Data1, OrderId: 2, ShardId: mine, CommitId: "zz", Provider: accused}, accused},
				{"wrong-data", saotypes.Fault{DataId: world.Data2, OrderId: 1, ShardId: mine, CommitId: "zz", Provider: accused}, accused},
				{"no-such-shard", saotypes.Fault{DataId: world.Data1, OrderId: 1, ShardId: 99, CommitId: "zz", Provider: accused}, accused},
				{"provider-field-mismatch", saotypes.Fault{DataId: world.Data1, OrderId: 1, ShardId: shardOf[other], CommitId: "zz", Provider: other}, accused},
			}
			// every shard listed by the two orders, named as a shard of the accused ("exact" when it really is)
			for _, id := range o1.Shards {
				vs = append(vs, variant{fmt.Sprintf("exact-o1-s%d", id), saotypes.Fault{DataId: world.Data1, OrderId: 1, ShardId: id, CommitId: "zz", Provider: accused}, accused})
			}
			for _, id := range o2.Shards {
				vs = append(vs, variant{fmt.Sprintf("exact-o2-s%d", id), saotypes.Fault{DataId: world.Data2, OrderId: 2, ShardId: id, CommitId: "zz", Provider: accused}, accused})
			}
			// order 3 is only partly stored: one of its shards is still waiting for its provider
			for _, id := range o3.Shards {
				vs = append(vs, variant{fmt.Sprintf("exact-o3-s%d", id), saotypes.Fault{DataId: o3.DataId, OrderId: 3, ShardId: id, CommitId: "zz", Provider: accused}, accused})
			}
			for _, ri := range []int{world.W, world.Q, world.G, world.P, world.X} {
				for _, v := range vs {
					if ri != world.W && !strings.HasPrefix(v.name, "exact") && tier != "thorough" {
						continue
					}
					f := v.f
					out = append(out, Tx("report", fmt.Sprintf("report(by=%s,accused=%s,%s)", w.A(ri).Name, w.NameOf(accused), v.name),
						&saotypes.MsgReportFaults{Creator: w.A(ri).S(), Provider: v.prov, Faults: []*saotypes.Fault{&f}}))
				}
			}
			// a report carrying several entries: only the valid ones may be recorded
			if has {
				good := saotypes.Fault{DataId: world.Data1, OrderId: 1, ShardId: mine, CommitId: "zz", Provider: accused}
				bad1 := saotypes.Fault{DataId: world.Data2, OrderId: 1, ShardId: mine, CommitId: "zz", Provider: accused}
				bad2 := saotypes.Fault{DataId: world.Data1, OrderId: 1, ShardId: shardOf[other], CommitId: "zz", Provider: accused}
				out = append(out, Tx("report", fmt.Sprintf("report(by=W,accused=%s,list[bad,good,bad])", w.NameOf(accused)),
					&saotypes.MsgReportFaults{Creator: w.A(world.W).S(), Provider: accused, Faults: []*saotypes.Fault{&bad1, &good, &bad2}}))
			}
			for _, ri := range []int{world.S1, world.S2, world.W, world.G, world.P, world.X} {
				f := saotypes.Fault{DataId: world.Data1, OrderId: 1, ShardId: mine, CommitId: o1.Commit, Provider: accused}
				out = append(out, Tx("recover", fmt.Sprintf("recover(by=%s,accused=%s)", w.A(ri).Name, w.NameOf(accused)),
					&saotypes.MsgRecoverFaults{Creator: w.A(ri).S(), Provider: accused, Faults: []*saotypes.Fault{&f}}))
			}
		}
		// self-service declarations: a node lists other providers among its own transaction addresses (legitimate on its
		// own; it must not let the node act as those providers)
		for _, d := range []struct {
			who  int
			list []string
		}{{world.S2, []string{s1}}, {world.P, []string{s1, s2}}} {
			if n, ok := a.NodeKeeper.GetNode(ctx, w.A(d.who).S()); ok && fmt.Sprint(n.TxAddresses) != fmt.Sprint(d.list) {
				out = append(out, Tx("declare", fmt.Sprintf("declare(%s,tx=%d providers)", w.A(d.who).Name, len(d.list)), &nodetypes.MsgReset{Creator: w.A(d.who).S(), Status: n.Status, TxAddresses: d.list}))
			}
		}
		// hand-over of a shard by migration (the former holder stays recorded in Shard.From)
		out = append(out, Tx("migrate", "migrate(S1,11)", &saotypes.MsgMigrate{Creator: s1, Provider: s1, Data: []string{world.Data1}}))
		for _, id := range o1.Shards {
			if sh, ok := a.OrderKeeper.GetShard(ctx, id); ok && sh.Status == ordertypes.ShardMigrating {
				out = append(out, CompleteOp(w, 1, sh))
			}
		}
		for _, id := range o3.Shards {
			if sh, ok := a.OrderKeeper.GetShard(ctx, id); ok && sh.Status == ordertypes.ShardWaiting {
				out = append(out, CompleteOp(w, 3, sh))
			}
		}
		out = append(out, AdvanceOps(w, ctx, false, 0)...)
		return out
	}
	return sc
}
