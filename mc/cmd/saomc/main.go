// saomc: coordinator, worker and replayer of the sao-consensus model-checking machinery.
//
//	saomc check  <Cxx> [--tier quick|thorough]      run the check, write evidence, print verdict lines
//	saomc worker <Cxx> --tier T --shard i --of n --out file   (internal)
//	saomc replay <trace.json>                        re-execute a trace and print the oracle verdicts
package main

import (
	"encoding/json"
	"flag"
	"fmt"
	"os"
	"os/exec"
	"path/filepath"
	"sort"
	"strconv"
	"strings"
	"sync"
	"time"

	"saomc/checks"
	"saomc/engine"
	"saomc/replica"
	"saomc/world"

	dbm "github.com/tendermint/tm-db"
)

func tailOf(s string, n int) string {
	if len(s) > n {
		return s[len(s)-n:]
	}
	return s
}

func verifRoot() string {
	if r := os.Getenv("VERIF_ROOT"); r != "" {
		return r
	}
	return "/verif"
}

func main() {
	if len(os.Args) < 2 {
		fmt.Fprintln(os.Stderr, "usage: saomc check|worker|replay ...")
		os.Exit(2)
	}
	switch os.Args[1] {
	case "check":
		os.Exit(cmdCheck(os.Args[2:]))
	case "worker":
		os.Exit(cmdWorker(os.Args[2:]))
	case "extra":
		os.Exit(cmdExtra(os.Args[2:]))
	case "replay":
		os.Exit(cmdReplay(os.Args[2:]))
	case "rpart":
		// child process of the real-restart leg: saomc rpart <script> <dbdir> <from> <to> <out>
		os.Exit(cmdRPart(os.Args[2:]))
	case "script":
		// debug: print the baseline transcript of an engine-R script
		for _, sc := range checks.AllScripts() {
			if len(os.Args) > 2 && sc.Name == os.Args[2] {
				tr, pos, _, ntx := replica.Run(sc, nil)
				for _, it := range tr.Items {
					if !strings.HasPrefix(it.What, "begin") && !strings.HasPrefix(it.What, "end+commit") || len(tr.Items) < 200 {
						fmt.Printf("%-60s %s %s\n", it.What, it.Hash[:8], it.Note)
					}
				}
				fmt.Println("positions", pos, "txs", ntx, "overlay", replica.OverlayActive)
			}
		}
	case "list":
		var ids []string
		for id := range checks.Registry {
			ids = append(ids, id)
		}
		sort.Strings(ids)
		fmt.Println(strings.Join(ids, " "))
	default:
		fmt.Fprintln(os.Stderr, "unknown command", os.Args[1])
		os.Exit(2)
	}
}

func tierDeadline(tier string) time.Duration {
	if s := os.Getenv("VERIF_DEADLINE_S"); s != "" {
		if n, err := strconv.Atoi(s); err == nil {
			return time.Duration(n) * time.Second
		}
	}
	if tier == "thorough" {
		return 25 * time.Minute
	}
	return 12 * time.Minute
}

// ---------------------------------------------------------------------------------------------
// worker

func cmdWorker(args []string) int {
	id := args[0]
	fs := flag.NewFlagSet("worker", flag.ExitOnError)
	tier := fs.String("tier", "quick", "")
	shard := fs.Int("shard", 0, "")
	of := fs.Int("of", 1, "")
	out := fs.String("out", "", "")
	deadline := fs.Int64("deadline", 0, "unix seconds")
	fs.Parse(args[1:])
	c := checks.Registry[id]
	if c == nil || c.Scenarios == nil {
		fmt.Fprintln(os.Stderr, "no engine-X scenarios for", id)
		return 2
	}
	dl := time.Now().Add(tierDeadline(*tier))
	if *deadline > 0 {
		dl = time.Unix(*deadline, 0)
	}
	var outs []engine.Output
	scs := c.Scenarios(*tier)
	if *tier == "thorough" {
		// small scenarios (fault sequences, rooted / debt / two-model variants) first: what they leave of their slice
		// goes to the big lifecycle scenarios at the end
		weight := func(id string) int {
			switch {
			case strings.Contains(id, "-to-"):
				return 0
			case strings.HasSuffix(id, "-life") || strings.HasSuffix(id, "-life-r1"):
				return 2
			}
			return 1
		}
		sort.SliceStable(scs, func(a, b int) bool { return weight(scs[a].ID) < weight(scs[b].ID) })
	}
	for i, sc := range scs {
		// the time budget is shared fairly: every scenario gets an equal part of what is left, so a big scenario that
		// hits its cap (reported as exhaustive:false with the depth completed) cannot starve the ones after it
		sdl := dl
		if *tier == "thorough" {
			sdl = time.Now().Add(time.Until(dl) / time.Duration(len(scs)-i))
		}
		w := world.New(sc.Cfg)
		ex := engine.NewExplorer(w, sc, *shard, *of, *out, sdl)
		ex.ConfWant = 1
		if *tier == "thorough" {
			ex.ConfWant = 3
		}
		o := ex.Run()
		ex.RunConformance(&o)
		outs = append(outs, o)
		w.Close()
	}
	bz, _ := json.Marshal(outs)
	if err := os.WriteFile(*out, bz, 0o644); err != nil {
		fmt.Fprintln(os.Stderr, err)
		return 2
	}
	return 0
}

func cmdRPart(args []string) int {
	if len(args) != 5 {
		return 2
	}
	var sc *replica.Script
	for _, s := range checks.AllScripts() {
		if s.Name == args[0] {
			sc = s
		}
	}
	if sc == nil {
		return 2
	}
	from, _ := strconv.Atoi(args[2])
	to, _ := strconv.Atoi(args[3])
	db, err := dbm.NewGoLevelDB("application", args[1])
	if err != nil {
		fmt.Fprintln(os.Stderr, err)
		return 2
	}
	w := world.NewOnDB(sc.Cfg, db, from == 0)
	tr := replica.RunPart(sc, w, from, to)
	w.Close()
	db.Close()
	if err := os.WriteFile(args[4], tr.JSON(), 0o644); err != nil {
		return 2
	}
	return 0
}

func cmdExtra(args []string) int {
	id := args[0]
	fs := flag.NewFlagSet("extra", flag.ExitOnError)
	tier := fs.String("tier", "quick", "")
	shard := fs.Int("shard", 0, "")
	of := fs.Int("of", 1, "")
	out := fs.String("out", "", "")
	fs.Parse(args[1:])
	c := checks.Registry[id]
	if c == nil || c.Extra == nil {
		return 2
	}
	engine.StartGuard(*out, id)
	r := c.Extra(*tier, *shard, *of)
	bz, _ := json.Marshal(r)
	if err := os.WriteFile(*out, bz, 0o644); err != nil {
		return 2
	}
	return 0
}

// ---------------------------------------------------------------------------------------------
// known findings

type KnownFinding struct {
	Property  string `json:"property"`
	Signature string `json:"signature"` // exact signature, or prefix ending in '*'
	What      string `json:"what"`
	Defect    string `json:"defect"`
	Witness   string `json:"witness,omitempty"`
}

type KnownFile struct {
	Known []KnownFinding `json:"known"`
	Fixed []string       `json:"fixed"`
}

func loadKnown() KnownFile {
	var k KnownFile
	bz, err := os.ReadFile(filepath.Join(verifRoot(), "known_findings.json"))
	if err != nil {
		return k
	}
	if err := json.Unmarshal(bz, &k); err != nil {
		fmt.Fprintln(os.Stderr, "HARNESS: known_findings.json unreadable:", err)
		os.Exit(2)
	}
	return k
}

func (k KnownFile) match(sig string) *KnownFinding {
	for i := range k.Known {
		p := k.Known[i].Signature
		if p == sig {
			return &k.Known[i]
		}
		// '*' stands for exactly one '/'-separated signature component (e.g. the operation kind)
		if strings.Contains(p, "*") {
			ps, ss := strings.Split(p, "/"), strings.Split(sig, "/")
			if len(ps) == len(ss) {
				ok := true
				for j := range ps {
					if ps[j] != "*" && ps[j] != ss[j] {
						ok = false
					}
				}
				if ok {
					return &k.Known[i]
				}
			}
		}
	}
	return nil
}

// ---------------------------------------------------------------------------------------------
// coordinator

type Trace struct {
	Check    string         `json:"check"`
	Tier     string         `json:"tier"`
	Scenario string         `json:"scenario"`
	Finding  engine.Finding `json:"finding"`
}

func cmdCheck(args []string) int {
	id := args[0]
	fs := flag.NewFlagSet("check", flag.ExitOnError)
	tier := fs.String("tier", "quick", "")
	fs.Parse(args[1:])
	if t := os.Getenv("VERIF_TIER"); t != "" && len(args) == 1 {
		*tier = t
	}
	c := checks.Registry[id]
	if c == nil {
		fmt.Fprintln(os.Stderr, "unknown check", id)
		return 2
	}
	t0 := time.Now()
	seed := 0
	if s := os.Getenv("VERIF_SEED"); s != "" {
		seed, _ = strconv.Atoi(s)
	}
	var merged engine.Stats
	merged.OKByKind, merged.FailByKind, merged.DistinctOuts = map[string]int{}, map[string]int{}, map[string]int{}
	merged.PanicKinds = map[string]int{}
	merged.Exhaustive = true
	findings := map[string]engine.Finding{}
	scenOf := map[string]string{}
	var samples []interface{}
	scenarioNames := []string{}
	harnessErr := false
	confOK, confSteps := 0, 0
	var confBlocks int64
	type scStat struct {
		States, Transitions, NonTrivial, DepthDone, MaxDepth, Conform int
		Exhaustive                                                    bool
	}
	perScenario := map[string]*scStat{}

	if c.Scenarios != nil {
		n := c.Workers
		if n == 0 {
			n = 16
		}
		if s := os.Getenv("VERIF_WORKERS"); s != "" {
			n, _ = strconv.Atoi(s)
		}
		tmp, err := os.MkdirTemp("", "saomc-run-")
		if err != nil {
			fmt.Fprintln(os.Stderr, err)
			return 2
		}
		defer os.RemoveAll(tmp)
		self, _ := os.Executable()
		dl := time.Now().Add(tierDeadline(*tier)).Unix()
		var wg sync.WaitGroup
		codes := make([]int, n)
		for i := 0; i < n; i++ {
			wg.Add(1)
			go func(i int) {
				defer wg.Done()
				out := filepath.Join(tmp, fmt.Sprintf("w%d.json", i))
				cmd := exec.Command(self, "worker", id, "--tier", *tier, "--shard", strconv.Itoa(i), "--of", strconv.Itoa(n), "--out", out, "--deadline", strconv.FormatInt(dl, 10))
				cmd.Stderr = os.Stderr
				cmd.Env = append(os.Environ(), "GOMAXPROCS=2")
				if err := cmd.Run(); err != nil {
					if ee, ok := err.(*exec.ExitError); ok {
						codes[i] = ee.ExitCode()
					} else {
						codes[i] = 99
					}
				}
			}(i)
		}
		wg.Wait()
		for i := 0; i < n; i++ {
			bz, err := os.ReadFile(filepath.Join(tmp, fmt.Sprintf("w%d.json", i)))
			if codes[i] == 3 {
				// watchdog: single Output with Hang
				var o engine.Output
				if err == nil && json.Unmarshal(bz, &o) == nil && o.Hang != nil {
					findings[o.Hang.Sig()] = *o.Hang
					scenOf[o.Hang.Sig()] = o.Scenario
				}
				merged.Exhaustive = false
				continue
			}
			if codes[i] != 0 || err != nil {
				fmt.Fprintf(os.Stderr, "HARNESS: worker %d exit %d %v\n", i, codes[i], err)
				harnessErr = true
				continue
			}
			var outs []engine.Output
			if err := json.Unmarshal(bz, &outs); err != nil {
				fmt.Fprintln(os.Stderr, "HARNESS: bad worker output", err)
				harnessErr = true
				continue
			}
			for _, o := range outs {
				if i == 0 {
					scenarioNames = append(scenarioNames, o.Scenario)
				}
				confOK += o.ConformOK
				confSteps += o.ConformSteps
				confBlocks += o.ConformBlocks
				for _, ce := range o.ConformErrs {
					fmt.Fprintln(os.Stderr, "HARNESS: conformance mismatch (explorer seam vs real ABCI):", ce)
					harnessErr = true
				}
				st := o.Stats
				ps := perScenario[o.Scenario]
				if ps == nil {
					ps = &scStat{Exhaustive: true, DepthDone: st.DepthDone}
					perScenario[o.Scenario] = ps
				}
				ps.States += st.States
				ps.Transitions += st.Transitions
				ps.NonTrivial += st.NonTrivial
				ps.Conform += o.ConformOK
				if st.DepthDone < ps.DepthDone {
					ps.DepthDone = st.DepthDone
				}
				if st.MaxDepth > ps.MaxDepth {
					ps.MaxDepth = st.MaxDepth
				}
				if !st.Exhaustive {
					ps.Exhaustive = false
				}
				merged.States += st.States
				merged.Transitions += st.Transitions
				merged.PanicTx += st.PanicTx
				merged.OutOfGas += st.OutOfGas
				merged.Halts += st.Halts
				merged.NonTrivial += st.NonTrivial
				merged.Jumps += st.Jumps
				merged.JumpChecks += st.JumpChecks
				if st.MaxDepth > merged.MaxDepth {
					merged.MaxDepth = st.MaxDepth
				}
				if merged.DepthDone == 0 || st.DepthDone < merged.DepthDone {
					merged.DepthDone = st.DepthDone
				}
				if !st.Exhaustive {
					merged.Exhaustive = false
				}
				for _, re := range st.RootErrors {
					dup := false
					for _, x := range merged.RootErrors {
						dup = dup || x == re
					}
					if !dup {
						merged.RootErrors = append(merged.RootErrors, re)
					}
				}
				for k, v := range st.OKByKind {
					merged.OKByKind[k] += v
				}
				for k, v := range st.FailByKind {
					merged.FailByKind[k] += v
				}
				for k, v := range st.PanicKinds {
					merged.PanicKinds[k] += v
				}
				for _, f := range o.Findings {
					if old, ok := findings[f.Sig()]; !ok || len(f.Trace) < len(old.Trace) {
						findings[f.Sig()] = f
						scenOf[f.Sig()] = o.Scenario
					}
				}
				for _, s := range o.Samples {
					if len(samples) < 4 {
						samples = append(samples, s)
					}
				}
			}
		}
	}
	var extra checks.ExtraResult
	extra.Exhaustive = true
	extra.Notes = map[string]interface{}{}
	if c.Extra != nil {
		n := c.ExtraWorkers
		if n == 0 {
			n = 16
		}
		tmp, err := os.MkdirTemp("", "saomc-extra-")
		if err != nil {
			return 2
		}
		defer os.RemoveAll(tmp)
		self, _ := os.Executable()
		var wg sync.WaitGroup
		codes := make([]int, n)
		for i := 0; i < n; i++ {
			wg.Add(1)
			go func(i int) {
				defer wg.Done()
				cmd := exec.Command(self, "extra", id, "--tier", *tier, "--shard", strconv.Itoa(i), "--of", strconv.Itoa(n), "--out", filepath.Join(tmp, fmt.Sprintf("x%d.json", i)))
				cmd.Stderr = os.Stderr
				cmd.Env = append(os.Environ(), "GOMAXPROCS=2")
				if err := cmd.Run(); err != nil {
					if ee, ok := err.(*exec.ExitError); ok {
						codes[i] = ee.ExitCode()
					} else {
						codes[i] = 99
					}
				}
			}(i)
		}
		wg.Wait()
		for i := 0; i < n; i++ {
			path := filepath.Join(tmp, fmt.Sprintf("x%d.json", i))
			if codes[i] == 3 {
				var hr engine.HangRecord
				if bz, err := os.ReadFile(path + ".hang"); err == nil && json.Unmarshal(bz, &hr) == nil {
					extra.Findings = append(extra.Findings, hr.Hang)
				}
				extra.Exhaustive = false
				continue
			}
			bz, err := os.ReadFile(path)
			var r checks.ExtraResult
			if codes[i] != 0 || err != nil || json.Unmarshal(bz, &r) != nil {
				fmt.Fprintf(os.Stderr, "HARNESS: extra worker %d exit %d %v\n", i, codes[i], err)
				harnessErr = true
				continue
			}
			extra.Evaluations += r.Evaluations
			extra.Distinct += r.Distinct
			extra.Findings = append(extra.Findings, r.Findings...)
			if len(extra.Samples) < 6 {
				extra.Samples = append(extra.Samples, r.Samples...)
			}
			if !r.Exhaustive {
				extra.Exhaustive = false
			}
			for k, v := range r.Notes {
				if fv, ok := v.(float64); ok {
					if old, ok := extra.Notes[k].(float64); ok {
						extra.Notes[k] = old + fv
					} else if _, exists := extra.Notes[k]; !exists {
						extra.Notes[k] = fv
					}
				} else if _, exists := extra.Notes[k]; !exists {
					extra.Notes[k] = v
				}
			}
		}
		for _, f := range extra.Findings {
			if old, ok := findings[f.Sig()]; !ok || len(f.Trace) < len(old.Trace) {
				findings[f.Sig()] = f
				scenOf[f.Sig()] = "extra"
			}
		}
		for _, s := range extra.Samples {
			if len(samples) < 8 {
				samples = append(samples, s)
			}
		}
		if !extra.Exhaustive {
			merged.Exhaustive = false
		}
	}
	if harnessErr {
		fmt.Println("HARNESS ERROR: see stderr; no verdict")
		return 2
	}

	// verdict
	known := loadKnown()
	var sigs []string
	for s := range findings {
		sigs = append(sigs, s)
	}
	sort.Strings(sigs)
	violations := 0
	harnessErr2 := false
	knownMet := map[string]bool{}
	other := 0
	var lines []string
	for _, sig := range sigs {
		f := findings[sig]
		if f.Property != id {
			other++
			continue
		}
		if k := known.match(sig); k != nil {
			if !knownMet[k.Signature] {
				knownMet[k.Signature] = true
				lines = append(lines, fmt.Sprintf("KNOWN-FINDING: property=%s %s [%s]", id, k.What, k.Signature))
				if os.Getenv("VERIF_DUMP_KNOWN") != "" && k.Witness != "" {
					bz, _ := json.MarshalIndent(Trace{Check: id, Tier: *tier, Scenario: scenOf[sig], Finding: f}, "", " ")
					os.MkdirAll(filepath.Dir(filepath.Join(verifRoot(), k.Witness)), 0o755)
					os.WriteFile(filepath.Join(verifRoot(), k.Witness), bz, 0o644)
				}
			}
			continue
		}
		violations++
		dir := filepath.Join(verifRoot(), "traces", "violations")
		os.MkdirAll(dir, 0o755)
		name := strings.NewReplacer("/", "_", " ", "_", "*", "", ":", "").Replace(sig)
		if len(name) > 100 {
			name = name[:100]
		}
		path := filepath.Join(dir, name+".json")
		bz, _ := json.MarshalIndent(Trace{Check: id, Tier: *tier, Scenario: scenOf[sig], Finding: f}, "", " ")
		os.WriteFile(path, bz, 0o644)
		// a violation found by engine X is replayed once more from a fresh world (separate process, no search) before
		// it is reported; if it does not reproduce the harness is at fault, not the repository
		if scenOf[sig] != "extra" && f.Clause != "non-termination" {
			self, _ := os.Executable()
			rp := exec.Command(self, "replay", path)
			rp.Env = append(os.Environ(), "GOMAXPROCS=2")
			outb, _ := rp.CombinedOutput()
			if !strings.Contains(string(outb), "REPRODUCED "+sig) || strings.Contains(string(outb), "NOT REPRODUCED") {
				fmt.Fprintf(os.Stderr, "HARNESS: finding %s did not reproduce on replay:\n%s\n", sig, tailOf(string(outb), 600))
				harnessErr2 = true
			}
		}
		lines = append(lines, fmt.Sprintf("VIOLATION property=%s replay=%s", id, path))
		lines = append(lines, fmt.Sprintf("  signature: %s\n  detail: %s\n  root: %s trace: %s", sig, f.Detail, f.Root, strings.Join(f.Trace, " ; ")))
	}

	// vacuity guard
	vacuous := ""
	if c.Scenarios != nil {
		if merged.States < 10 || merged.NonTrivial == 0 {
			vacuous = fmt.Sprintf("vacuous exploration: states=%d nontrivial=%d", merged.States, merged.NonTrivial)
		}
	}

	if c.Scenarios != nil && vacuous == "" {
		for _, k := range c.MustSucceed {
			if merged.OKByKind[k] == 0 {
				vacuous = fmt.Sprintf("vacuous exploration: operation kind %q never succeeded", k)
			}
		}
		// and no operation kind of the honest alphabet may be offered without ever succeeding (adversarial kinds,
		// malformed twins and deliberately failing operations are named adv-*, *-bad*, *-fail)
		for k, n := range merged.FailByKind {
			if n > 0 && merged.OKByKind[k] == 0 && !strings.HasPrefix(k, "adv-") && !strings.Contains(k, "-bad") && !strings.HasSuffix(k, "-fail") {
				vacuous = fmt.Sprintf("vacuous exploration: operation kind %q was offered %d times and never succeeded", k, n)
			}
		}
	}

	// evidence
	cov := map[string]interface{}{
		"rule":       c.Rule,
		"exhaustive": merged.Exhaustive,
		"samples":    samples,
	}
	if c.Scenarios != nil {
		cov["states"] = merged.States
		cov["transitions"] = merged.Transitions
		cov["traces_validated_against_impl"] = confOK
		cov["conformance"] = map[string]interface{}{"traces": confOK, "steps_compared": confSteps, "abci_blocks_executed": confBlocks,
			"what": "each trace replayed in lock-step on the explorer seam and through real ABCI (signed txs via DeliverTx, every height via the full module manager with Commit); six custom stores + actor/module balances compared byte for byte after every step"}
		cov["evaluations"] = merged.Transitions + extra.Evaluations
		cov["distinct_nontrivial"] = merged.NonTrivial + extra.Distinct
		cov["depth_completed"] = merged.DepthDone
		cov["max_depth_reached"] = merged.MaxDepth
		cov["successful_transitions_by_kind"] = merged.OKByKind
		cov["rejected_transitions_by_kind"] = merged.FailByKind
		cov["tx_panics_recovered"] = merged.PanicTx
		cov["tx_panic_kinds"] = merged.PanicKinds
		cov["tx_out_of_gas"] = merged.OutOfGas
		cov["chain_halts_met"] = merged.Halts
		cov["height_jumps"] = merged.Jumps
		cov["jump_side_condition_checks"] = merged.JumpChecks
		cov["scenarios"] = scenarioNames
		scs := map[string]interface{}{}
		for name, ps := range perScenario {
			scs[name] = map[string]interface{}{"states": ps.States, "transitions": ps.Transitions, "nontrivial_states": ps.NonTrivial,
				"depth_completed": ps.DepthDone, "max_depth_reached": ps.MaxDepth, "traces_validated_against_impl": ps.Conform, "exhaustive": ps.Exhaustive}
		}
		cov["per_scenario"] = scs
		cov["depth_note"] = "depth_completed at top level is the minimum over the scenarios (each scenario has its own bound); see per_scenario"
		cov["states_note"] = "sum of per-worker distinct states (levels above the split level counted once)"
	} else {
		cov["evaluations"] = extra.Evaluations
		cov["distinct_nontrivial"] = extra.Distinct
	}
	for k, v := range extra.Notes {
		cov[k] = v
	}
	var km []string
	for s := range knownMet {
		km = append(km, s)
	}
	sort.Strings(km)
	cov["known_findings_met"] = km
	cov["findings_of_other_properties_ignored"] = other
	ev := map[string]interface{}{
		"property_id": id, "tier": *tier, "seed": seed, "level": c.Level, "coverage": cov,
		"assumptions": c.Assumptions, "wall_s": time.Since(t0).Seconds(), "violations": violations,
	}
	bz, _ := json.MarshalIndent(ev, "", " ")
	os.MkdirAll(filepath.Join(verifRoot(), "evidence"), 0o755)
	os.WriteFile(filepath.Join(verifRoot(), "evidence", id+".json"), bz, 0o644)

	for _, l := range lines {
		fmt.Println(l)
	}
	fmt.Printf("%s %s: states=%d transitions=%d nontrivial=%d depth=%d exhaustive=%v violations=%d known=%d wall=%.1fs\n",
		id, *tier, merged.States, merged.Transitions+extra.Evaluations, merged.NonTrivial+extra.Distinct, merged.DepthDone, merged.Exhaustive, violations, len(knownMet), time.Since(t0).Seconds())
	if harnessErr2 {
		fmt.Println("HARNESS ERROR: a reported finding did not reproduce on replay (see stderr); no verdict")
		return 2
	}
	for _, re := range merged.RootErrors {
		fmt.Println("note: root skipped:", re)
	}
	if violations > 0 {
		// reproduced violations stand even if some operation kind never succeeded (that is often their consequence)
		if vacuous != "" {
			fmt.Println("note:", vacuous)
		}
		return 1
	}
	if len(merged.RootErrors) > 0 {
		fmt.Println("HARNESS ERROR: a root state could not be built on this tree and nothing else was found; no verdict")
		return 2
	}
	if vacuous != "" {
		fmt.Println("HARNESS ERROR:", vacuous)
		return 2
	}
	return 0
}

// ---------------------------------------------------------------------------------------------
// replay

func cmdReplay(args []string) int {
	bz, err := os.ReadFile(args[0])
	if err != nil {
		fmt.Fprintln(os.Stderr, err)
		return 2
	}
	var tr Trace
	if err := json.Unmarshal(bz, &tr); err != nil {
		fmt.Fprintln(os.Stderr, err)
		return 2
	}
	c := checks.Registry[tr.Check]
	if c == nil {
		fmt.Fprintln(os.Stderr, "unknown check", tr.Check)
		return 2
	}
	if tr.Scenario == "extra" {
		if out, ok := checks.ReplayExtra(tr.Check, tr.Finding); ok {
			fmt.Println(out)
			if strings.Contains(out, "REPRODUCED") && !strings.Contains(out, "NOT REPRODUCED") {
				return 1
			}
			return 0
		}
		fmt.Println("this finding comes from an enumeration leg; its input is:", tr.Finding.Trace, "- re-run the check to reproduce it")
		return 2
	}
	if c.Scenarios == nil {
		fmt.Fprintln(os.Stderr, "trace of a check without engine-X scenarios")
		return 2
	}
	for _, sc := range c.Scenarios(tr.Tier) {
		if sc.ID != tr.Scenario {
			continue
		}
		w := world.New(sc.Cfg)
		defer w.Close()
		fs := engine.Replay(w, sc, tr.Finding.Root, tr.Finding.Trace, os.Stdout)
		if os.Getenv("VERIF_SHOW_OPS") != "" {
			fmt.Println("enabled operations after the trace:", engine.EnabledAfter(w, sc, tr.Finding.Root, tr.Finding.Trace))
		}
		hit := false
		for _, f := range fs {
			fmt.Printf("FINDING %s :: %s\n", f.Sig(), f.Detail)
			if f.Sig() == tr.Finding.Sig() {
				hit = true
			}
		}
		if hit {
			fmt.Println("REPRODUCED", tr.Finding.Sig())
			return 1
		}
		fmt.Println("NOT REPRODUCED", tr.Finding.Sig())
		return 0
	}
	fmt.Fprintln(os.Stderr, "scenario not found:", tr.Scenario)
	return 2
}
