// Package replica is engine R of DESIGN.md: a script of blocks of signed transactions is executed on real
// application instances through the ABCI boundary (InitChain, BeginBlock, DeliverTx, EndBlock, Commit), once
// plainly (replica A) and once per enumerated environment deviation (replica B): wall-clock offset, map-iteration
// word, non-consensus calls (CheckTx / Simulate / Query) inserted at every stream position, restart from the
// database after every commit, crash in the middle of every block. Oracle: byte equality of every consensus
// response and of the app hash at every height.
package replica

import (
	"bytes"
	"crypto/sha256"
	"encoding/hex"
	"encoding/json"
	"fmt"
	"math/rand"
	"os"

	"saomc/world"

	"github.com/cosmos/cosmos-sdk/simapp/helpers"
	sdk "github.com/cosmos/cosmos-sdk/types"
	abci "github.com/tendermint/tendermint/abci/types"
	dbm "github.com/tendermint/tm-db"
)

// TxSpec builds one transaction from the state of the block in progress (e.g. "complete by the assigned provider").
type TxSpec struct {
	Name  string
	Build func(w *world.World, ctx sdk.Context) sdk.Msg
}

type Block struct {
	Txs []TxSpec
	// SkipTo > 0: after this block, run empty blocks up to and including height SkipTo
	SkipTo int64
	// EveryHeight: the empty blocks up to SkipTo are stream positions too (deviations, restarts between them)
	EveryHeight bool
}

type Script struct {
	Name   string
	Cfg    world.Config
	Blocks []Block
}

// Deviation is one environment difference of replica B.
type Deviation struct {
	Kind string `json:"kind"` // "", "clock", "mapword", "checktx", "simulate", "query", "restart", "midcrash"
	Pos  int    `json:"pos"`  // stream position: index into the flattened (block-start, tx, ..., block-end) stream
	Arg  int64  `json:"arg"`  // clock offset seconds / map word / tx index for checktx+simulate / query index
}

func (d Deviation) String() string {
	if d.Kind == "" {
		return "none"
	}
	return fmt.Sprintf("%s@%d(%d)", d.Kind, d.Pos, d.Arg)
}

// Transcript is what consensus sees.
type Transcript struct {
	Items []Item
}

type Item struct {
	What string // "tx <name>" / "begin h" / "end h" / "commit h"
	Hash string // sha256 of the canonical response bytes
	Note string // human-readable summary (code, log head)
}

func hashOf(parts ...[]byte) string {
	h := sha256.New()
	for _, p := range parts {
		h.Write(p)
		h.Write([]byte{0})
	}
	return hex.EncodeToString(h.Sum(nil))[:24]
}

func deliverHash(r abci.ResponseDeliverTx) string {
	r.Log, r.Info = "", ""
	bz, _ := r.Marshal()
	return hashOf(bz)
}

// Env hooks are provided by env_ovl.go (overlay build) or env_std.go.

type runner struct {
	sc        *Script
	w         *world.World
	h         int64
	homes     []string
	txs       [][]byte // all tx bytes built so far
	specs     []TxSpec // flattened transaction specs of the script (for checktx / simulate insertion by index)
	Applied   int      // non-consensus calls / restarts actually performed
	QueriesOK int      // queries answered without error
	pos       int
	dev       []Deviation
	tr        *Transcript
	queryN    int
}

var queryPaths = []string{
	"/saonetwork.sao.node.Query/Pool",
	"/saonetwork.sao.node.Query/NodeAll",
	"/saonetwork.sao.order.Query/OrderAll",
	"/saonetwork.sao.model.Query/MetadataAll",
	"/cosmos.bank.v1beta1.Query/TotalSupply",
}

func (r *runner) sign(msg sdk.Msg) []byte { return r.signWith(msg, false) }

func (r *runner) signWith(msg sdk.Msg, checkState bool) []byte {
	signer := msg.GetSigners()[0].String()
	var act *world.Actor
	for _, a := range r.w.Actors {
		if a.S() == signer {
			act = a
		}
	}
	if act == nil {
		panic("HARNESS: unknown signer " + signer)
	}
	ctx := r.w.DeliverCtx(r.h)
	if checkState {
		ctx = r.w.App.NewContext(true, r.w.Header(r.h))
	}
	acc := r.w.App.AccountKeeper.GetAccount(ctx, act.Addr)
	tx, err := helpers.GenSignedMockTx(rand.New(rand.NewSource(1)), r.w.Enc.TxConfig, []sdk.Msg{msg}, sdk.NewCoins(), world.GasLimit, world.ChainID,
		[]uint64{acc.GetAccountNumber()}, []uint64{acc.GetSequence()}, act.Priv)
	if err != nil {
		panic(err)
	}
	bz, err := r.w.Enc.TxConfig.TxEncoder()(tx)
	if err != nil {
		panic(err)
	}
	return bz
}

// at applies the deviations scheduled for the current stream position.
func (r *runner) at(committed bool) {
	for _, d := range r.dev {
		if d.Pos != r.pos {
			continue
		}
		switch d.Kind {
		case "clock":
			setClockOffset(d.Arg)
		case "mapword":
			setMapWord(uint64(d.Arg))
		case "checktx", "simulate":
			if committed && int(d.Arg) < len(r.specs) {
				// the transaction is built from the current state and signed with the sequence the mempool
				// (check state) expects, as a client would do
				func() {
					defer func() { recover() }()
					msg := r.specs[d.Arg].Build(r.w, r.w.DeliverCtx(r.h))
					bz := r.signWith(msg, true)
					if d.Kind == "checktx" {
						r.w.App.CheckTx(abci.RequestCheckTx{Tx: bz, Type: abci.CheckTxType_New})
					} else {
						r.w.App.Simulate(bz)
					}
					r.Applied++
				}()
			}
		case "query":
			if committed {
				// the whole menu (every query method of the six custom modules, single-item queries once per key of the
				// committed state) plus a bank query; d.Arg is kept for old witness files only
				qs := append(AllQueries(r.w, r.w.App.NewContext(true, r.w.Header(r.h))), abci.RequestQuery{Path: queryPaths[4]})
				for _, q := range qs {
					q := q
					func() {
						defer func() { recover() }()
						res := r.w.App.Query(q)
						r.Applied++
						if res.Code == 0 {
							r.QueriesOK++
						}
					}()
				}
			}
		}
	}
	r.pos++
}

func (r *runner) restart() {
	home, _ := os.MkdirTemp("", "saomc-home-")
	r.homes = append(r.homes, home)
	r.Applied++
	a, enc := world.NewApp(r.w.DB, home)
	r.w.App, r.w.Enc = a, enc
}

func (r *runner) has(kind string, pos int) bool {
	for _, d := range r.dev {
		if d.Kind == kind && d.Pos == pos {
			return true
		}
	}
	return false
}

// Run executes the script under the deviations and returns the consensus transcript and the number of stream
// positions (so that callers can enumerate them).
func Run(sc *Script, dev []Deviation) (tr *Transcript, positions int, applied int, ntx int) {
	setClockOffset(0)
	setMapWord(0)
	defer func() { setClockOffset(0); setMapWord(0) }()
	w := world.New(sc.Cfg) // InitChain + BeginBlock(1)
	r := &runner{sc: sc, w: w, h: 1, dev: dev, tr: &Transcript{}}
	for _, b := range sc.Blocks {
		r.specs = append(r.specs, b.Txs...)
	}
	defer func() {
		for _, h := range r.homes {
			os.RemoveAll(h)
		}
		w.Close()
	}()
	committed := false
	emptyBlocks := func(to int64, positions bool) {
		for r.h <= to {
			if positions {
				r.at(true)
			}
			eb := r.w.App.EndBlock(abci.RequestEndBlock{Height: r.h})
			ebz, _ := eb.Marshal()
			c := r.w.App.Commit()
			r.tr.Items = append(r.tr.Items, Item{What: fmt.Sprintf("end+commit %d", r.h), Hash: hashOf(ebz, c.Data)})
			if positions && r.has("restart", r.pos-1) {
				r.restart()
			}
			r.h++
			bb := r.w.App.BeginBlock(abci.RequestBeginBlock{Header: r.w.Header(r.h)})
			bbz, _ := bb.Marshal()
			r.tr.Items = append(r.tr.Items, Item{What: fmt.Sprintf("begin %d", r.h), Hash: hashOf(bbz)})
		}
	}
	for bi, blk := range sc.Blocks {
		var built [][]byte
		itemsAtBlockStart := len(r.tr.Items)
		crashed := false
		for ti := 0; ti < len(blk.Txs); ti++ {
			spec := blk.Txs[ti]
			var bz []byte
			if ti < len(built) {
				bz = built[ti] // re-execution after a mid-block crash: same bytes, no new stream position
			} else {
				r.at(committed)
				msg := spec.Build(r.w, r.w.DeliverCtx(r.h))
				bz = r.sign(msg)
				built = append(built, bz)
				r.txs = append(r.txs, bz)
			}
			res := r.w.App.DeliverTx(abci.RequestDeliverTx{Tx: bz})
			r.tr.Items = append(r.tr.Items, Item{What: fmt.Sprintf("b%d tx %s", bi, spec.Name), Hash: deliverHash(res), Note: fmt.Sprintf("code=%d gas=%d %.60s", res.Code, res.GasUsed, res.Log)})
			// crash in the middle of the block, after this transaction: the instance is dropped, a new one starts
			// from the last commit and executes the whole block again
			if !crashed && committed && ti == len(built)-1 && r.has("midcrash", r.pos-1) {
				crashed = true
				r.tr.Items = r.tr.Items[:itemsAtBlockStart]
				r.restart()
				bb := r.w.App.BeginBlock(abci.RequestBeginBlock{Header: r.w.Header(r.h)})
				bbz, _ := bb.Marshal()
				// the begin item of this height was recorded before the block: check it is reproduced
				if n := len(r.tr.Items); n > 0 && r.tr.Items[n-1].What == fmt.Sprintf("begin %d", r.h) && r.tr.Items[n-1].Hash != hashOf(bbz) {
					r.tr.Items[n-1].Hash = hashOf(bbz)
				}
				ti = -1
			}
		}
		r.at(committed) // end-of-block position
		eb := r.w.App.EndBlock(abci.RequestEndBlock{Height: r.h})
		ebz, _ := eb.Marshal()
		c := r.w.App.Commit()
		committed = true
		r.tr.Items = append(r.tr.Items, Item{What: fmt.Sprintf("end+commit %d", r.h), Hash: hashOf(ebz, c.Data)})
		if r.has("restart", r.pos-1) {
			r.restart()
		}
		r.h++
		bb := r.w.App.BeginBlock(abci.RequestBeginBlock{Header: r.w.Header(r.h)})
		bbz, _ := bb.Marshal()
		r.tr.Items = append(r.tr.Items, Item{What: fmt.Sprintf("begin %d", r.h), Hash: hashOf(bbz)})
		if blk.SkipTo > 0 {
			emptyBlocks(blk.SkipTo, blk.EveryHeight)
		}
	}
	return r.tr, r.pos, r.Applied, len(r.specs)
}

// Diff returns the first differing item, or "".
func Diff(a, b *Transcript) string {
	n := len(a.Items)
	if len(b.Items) < n {
		n = len(b.Items)
	}
	for i := 0; i < n; i++ {
		if a.Items[i].What != b.Items[i].What || a.Items[i].Hash != b.Items[i].Hash {
			return fmt.Sprintf("item %d: A{%s %s %s} vs B{%s %s %s}", i, a.Items[i].What, a.Items[i].Hash, a.Items[i].Note, b.Items[i].What, b.Items[i].Hash, b.Items[i].Note)
		}
	}
	if len(a.Items) != len(b.Items) {
		return fmt.Sprintf("transcript lengths differ: %d vs %d", len(a.Items), len(b.Items))
	}
	return ""
}

func (t *Transcript) Digest() string {
	var b bytes.Buffer
	for _, it := range t.Items {
		b.WriteString(it.What + it.Hash)
	}
	return hashOf(b.Bytes())
}

func (t *Transcript) JSON() []byte { bz, _ := json.Marshal(t.Items); return bz }

var _ = dbm.NewMemDB

// RunBlocks executes the first n blocks of the script plainly and returns the live world (the caller closes it)
// and the height of the block in progress.
func RunBlocks(sc *Script, n int) (*world.World, int64) {
	w := world.New(sc.Cfg)
	r := &runner{sc: sc, w: w, h: 1, tr: &Transcript{}}
	for bi, blk := range sc.Blocks {
		if bi >= n {
			break
		}
		for _, spec := range blk.Txs {
			msg := spec.Build(r.w, r.w.DeliverCtx(r.h))
			r.w.App.DeliverTx(abci.RequestDeliverTx{Tx: r.sign(msg)})
		}
		end := r.h
		if blk.SkipTo > end {
			end = blk.SkipTo
		}
		for r.h <= end {
			r.w.App.EndBlock(abci.RequestEndBlock{Height: r.h})
			r.w.App.Commit()
			r.h++
			r.w.App.BeginBlock(abci.RequestBeginBlock{Header: r.w.Header(r.h)})
		}
	}
	return w, r.h
}

// RunPart executes blocks [from, to) of the script on the application of w (a child process of the real-restart
// leg of C03). from == 0 expects a fresh world (InitChain + BeginBlock(1) done); otherwise the application has just
// been loaded from its database and the block in progress is begun here. It returns the transcript items of its part.
func RunPart(sc *Script, w *world.World, from, to int) *Transcript {
	r := &runner{sc: sc, w: w, tr: &Transcript{}}
	r.h = w.App.LastBlockHeight() + 1
	if from > 0 {
		bb := w.App.BeginBlock(abci.RequestBeginBlock{Header: w.Header(r.h)})
		bbz, _ := bb.Marshal()
		r.tr.Items = append(r.tr.Items, Item{What: fmt.Sprintf("begin %d", r.h), Hash: hashOf(bbz)})
	}
	for bi := from; bi < to && bi < len(sc.Blocks); bi++ {
		blk := sc.Blocks[bi]
		for _, spec := range blk.Txs {
			msg := spec.Build(w, w.DeliverCtx(r.h))
			res := w.App.DeliverTx(abci.RequestDeliverTx{Tx: r.sign(msg)})
			r.tr.Items = append(r.tr.Items, Item{What: fmt.Sprintf("b%d tx %s", bi, spec.Name), Hash: deliverHash(res), Note: fmt.Sprintf("code=%d gas=%d %.60s", res.Code, res.GasUsed, res.Log)})
		}
		end := r.h
		if blk.SkipTo > end {
			end = blk.SkipTo
		}
		for r.h <= end {
			eb := w.App.EndBlock(abci.RequestEndBlock{Height: r.h})
			ebz, _ := eb.Marshal()
			c := w.App.Commit()
			r.tr.Items = append(r.tr.Items, Item{What: fmt.Sprintf("end+commit %d", r.h), Hash: hashOf(ebz, c.Data)})
			r.h++
			last := bi == to-1 && r.h > end
			if !last {
				bb := w.App.BeginBlock(abci.RequestBeginBlock{Header: w.Header(r.h)})
				bbz, _ := bb.Marshal()
				r.tr.Items = append(r.tr.Items, Item{What: fmt.Sprintf("begin %d", r.h), Hash: hashOf(bbz)})
			}
		}
	}
	return r.tr
}
