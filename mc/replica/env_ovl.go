//go:build ovl

package replica

import "time"

// built with the std overlay: the harness owns the wall clock and the map iteration start of the whole process
const OverlayActive = true

func setClockOffset(sec int64) { time.VerifWallOffset = sec }
func setMapWord(v uint64)      { time.VerifSetMapIter(v) }
