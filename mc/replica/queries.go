package replica

import (
	"fmt"

	"saomc/world"

	didtypes "github.com/SaoNetwork/sao/x/did/types"
	markettypes "github.com/SaoNetwork/sao/x/market/types"
	modeltypes "github.com/SaoNetwork/sao/x/model/types"
	nodetypes "github.com/SaoNetwork/sao/x/node/types"
	ordertypes "github.com/SaoNetwork/sao/x/order/types"
	saotypes "github.com/SaoNetwork/sao/x/sao/types"
	"github.com/cosmos/cosmos-sdk/store/prefix"
	sdk "github.com/cosmos/cosmos-sdk/types"
	abci "github.com/tendermint/tendermint/abci/types"
)

type marshaler interface{ Marshal() ([]byte, error) }

// AllQueries builds the whole gRPC query menu of the six custom modules for the committed state seen through ctx:
// Params and every list query with an empty request, and every single-item query once per key present in the state
// (plus one absent key each). Issuing the whole menu is one "query" deviation: none of it may leave a trace in
// consensus results.
func AllQueries(w *world.World, ctx sdk.Context) []abci.RequestQuery {
	var out []abci.RequestQuery
	add := func(mod, method string, req marshaler) {
		var bz []byte
		if req != nil {
			b, err := req.Marshal()
			if err != nil {
				panic("HARNESS: query request: " + err.Error())
			}
			bz = b
		}
		out = append(out, abci.RequestQuery{Path: fmt.Sprintf("/saonetwork.sao.%s.Query/%s", mod, method), Data: bz})
	}
	a := w.App
	for _, m := range []string{"sao", "node", "order", "model", "did", "market"} {
		add(m, "Params", nil)
	}
	for _, x := range [][2]string{{"sao", "TimeoutOrderAll"}, {"sao", "ExpiredShardAll"}, {"sao", "Latesthight"}, {"sao", "NetVersion"},
		{"node", "NodeAll"}, {"node", "Pool"}, {"node", "PledgeAll"}, {"node", "PledgeDebtAll"}, {"node", "AllFaults"}, {"node", "Fishmen"},
		{"order", "OrderAll"}, {"order", "ShardAll"},
		{"model", "MetadataAll"}, {"model", "ModelAll"}, {"model", "ExpiredDataAll"},
		{"did", "AccountListAll"}, {"did", "AccountAuthAll"}, {"did", "SidDocumentAll"}, {"did", "SidDocumentVersionAll"}, {"did", "PastSeedsAll"},
		{"did", "PaymentAddressAll"}, {"did", "AccountIdAll"}, {"did", "DidAll"}, {"did", "KidAll"}, {"did", "DidBalancesAll"},
		{"market", "WorkerAll"}} {
		add(x[0], x[1], nil)
	}
	// did
	dids := map[string]bool{"did:sid:absent": true}
	for _, act := range w.Actors {
		dids[act.Did] = true
	}
	for _, l := range a.DidKeeper.GetAllAccountList(ctx) {
		dids[l.Did] = true
	}
	for _, p := range a.DidKeeper.GetAllPaymentAddress(ctx) {
		dids[p.Did] = true
	}
	for _, d := range sortedSet(dids) {
		add("did", "AccountList", &didtypes.QueryGetAccountListRequest{Did: d})
		add("did", "GetAllAccountAuths", &didtypes.QueryGetAllAccountAuthsRequest{Did: d})
		add("did", "PastSeeds", &didtypes.QueryGetPastSeedsRequest{Did: d})
		add("did", "PaymentAddress", &didtypes.QueryGetPaymentAddressRequest{Did: d})
		add("did", "ValidateDid", &didtypes.QueryValidateDidRequest{Did: d})
		add("did", "DidBalances", &didtypes.QueryGetDidBalancesRequest{Did: d})
	}
	for _, d := range a.DidKeeper.GetAllSidDocument(ctx) {
		add("did", "SidDocument", &didtypes.QueryGetSidDocumentRequest{VersionId: d.VersionId})
	}
	add("did", "SidDocument", &didtypes.QueryGetSidDocumentRequest{VersionId: "absent"})
	for _, d := range a.DidKeeper.GetAllSidDocumentVersion(ctx) {
		add("did", "SidDocumentVersion", &didtypes.QueryGetSidDocumentVersionRequest{DocId: d.DocId})
	}
	for _, d := range a.DidKeeper.GetAllAccountAuth(ctx) {
		add("did", "AccountAuth", &didtypes.QueryGetAccountAuthRequest{AccountDid: d.AccountDid})
		add("did", "AccountId", &didtypes.QueryGetAccountIdRequest{AccountDid: d.AccountDid})
	}
	for _, d := range a.DidKeeper.GetAllDid(ctx) {
		add("did", "Did", &didtypes.QueryGetDidRequest{AccountId: d.AccountId})
	}
	for _, act := range w.Actors {
		add("did", "Kid", &didtypes.QueryGetKidRequest{Address: act.S()})
	}
	// node
	for _, act := range w.Actors {
		add("node", "Node", &nodetypes.QueryGetNodeRequest{Creator: act.S()})
		add("node", "Pledge", &nodetypes.QueryGetPledgeRequest{Creator: act.S()})
		add("node", "PledgeDebt", &nodetypes.QueryGetPledgeDebtRequest{Sp: act.S()})
		add("order", "ShardListBySp", &ordertypes.QueryShardListBySpRequest{Sp: act.S()})
		add("market", "Worker", &markettypes.QueryGetWorkerRequest{Workername: act.S()})
	}
	for _, wk := range a.MarketKeeper.GetAllWorker(ctx) {
		add("market", "Worker", &markettypes.QueryGetWorkerRequest{Workername: wk.Workername})
	}
	for _, f := range allFaults(w, ctx) {
		add("node", "Fault", &nodetypes.QueryFaultRequest{FaultId: f.FaultId})
		add("node", "AllFaults", &nodetypes.QueryAllFaultsRequest{Provider: f.Provider, ShardId: f.ShardId})
	}
	// order
	for _, o := range a.OrderKeeper.GetAllOrder(ctx) {
		add("order", "Order", &ordertypes.QueryGetOrderRequest{Id: o.Id})
		add("order", "OrderAll", &ordertypes.QueryAllOrderRequest{Did: o.Owner, States: []int32{o.Status}})
	}
	add("order", "Order", &ordertypes.QueryGetOrderRequest{Id: 987654})
	for _, s := range a.OrderKeeper.GetAllShard(ctx) {
		add("order", "Shard", &ordertypes.QueryGetShardRequest{Id: s.Id})
	}
	// model + sao
	var ids []string
	for _, m := range a.ModelKeeper.GetAllMetadata(ctx) {
		ids = append(ids, m.DataId)
		add("model", "Metadata", &modeltypes.QueryGetMetadataRequest{DataId: m.DataId})
		add("sao", "Metadata", &saotypes.QueryMetadataRequest{Proposal: saotypes.QueryProposal{Owner: m.Owner, Keyword: m.DataId, GroupId: m.GroupId, KeywordType: 1}})
		add("sao", "Metadata", &saotypes.QueryMetadataRequest{Proposal: saotypes.QueryProposal{Owner: m.Owner, Keyword: m.Alias, GroupId: m.GroupId, KeywordType: 2, DataOwner: m.Owner}})
	}
	add("model", "MetaStatus", &modeltypes.QueryMetaStatusRequest{DataIds: append(ids, "absent")})
	for _, m := range a.ModelKeeper.GetAllModel(ctx) {
		add("model", "Model", &modeltypes.QueryGetModelRequest{Key: m.Key})
	}
	for _, e := range a.ModelKeeper.GetAllExpiredData(ctx) {
		add("model", "ExpiredData", &modeltypes.QueryGetExpiredDataRequest{Height: e.Height})
	}
	for _, e := range a.SaoKeeper.GetAllTimeoutOrder(ctx) {
		add("sao", "TimeoutOrder", &saotypes.QueryGetTimeoutOrderRequest{Height: e.Height})
	}
	for _, e := range a.SaoKeeper.GetAllExpiredShard(ctx) {
		add("sao", "ExpiredShard", &saotypes.QueryGetExpiredShardRequest{Height: e.Height})
	}
	return out
}

func allFaults(w *world.World, ctx sdk.Context) []nodetypes.Fault {
	st := prefix.NewStore(ctx.KVStore(w.KeyOf("node")), nodetypes.KeyPrefix(nodetypes.FaultIdKeyPrefix))
	it := st.Iterator(nil, nil)
	defer it.Close()
	var out []nodetypes.Fault
	for ; it.Valid(); it.Next() {
		var f nodetypes.Fault
		if err := f.Unmarshal(it.Value()); err == nil {
			out = append(out, f)
		}
	}
	return out
}

func sortedSet(m map[string]bool) []string {
	var out []string
	for k := range m {
		out = append(out, k)
	}
	for i := range out {
		for j := i + 1; j < len(out); j++ {
			if out[j] < out[i] {
				out[i], out[j] = out[j], out[i]
			}
		}
	}
	return out
}
