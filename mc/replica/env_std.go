//go:build !ovl

package replica

const OverlayActive = false

func setClockOffset(int64) {}
func setMapWord(uint64)    {}
