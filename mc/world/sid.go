package world

import (
	"encoding/base64"
	"encoding/json"
	"fmt"

	didkeeper "github.com/SaoNetwork/sao/x/did/keeper"
	didtypes "github.com/SaoNetwork/sao/x/did/types"
	saotypes "github.com/SaoNetwork/sao/x/sao/types"
	"github.com/cosmos/cosmos-sdk/crypto/keys/secp256k1"
	"github.com/dvsekhvalnov/jose2go/base64url"
	"github.com/multiformats/go-multibase"
)

// Sid is a did:sid identity: a document key pair plus the account that binds to it.
type Sid struct {
	Name    string
	KeyPriv *secp256k1.PrivKey
	Keys    []*didtypes.PubKey
	DocId   string
	Did     string
	Ts      uint64
}

// NewSid derives a sid DID from a key secret and a creation timestamp (the doc id hashes both).
func NewSid(name, secret string, ts uint64) *Sid {
	kp := secp256k1.GenPrivKeyFromSecret([]byte(secret))
	enc, err := multibase.Encode(multibase.Base58BTC, append([]byte{0xe7, 0x01}, kp.PubKey().Bytes()...))
	if err != nil {
		panic(err)
	}
	keys := []*didtypes.PubKey{{Name: "k1", Value: enc}}
	docId, err := didkeeper.CalculateDocId(keys, ts)
	if err != nil {
		panic(err)
	}
	return &Sid{Name: name, KeyPriv: kp, Keys: keys, DocId: docId, Did: "did:sid:" + docId, Ts: ts}
}

// CosmosProof builds a binding proof: the account's own key signs "message" for this chain.
func CosmosProof(acct *Actor, did, message string, ts uint64) *didtypes.BindingProof {
	sig, err := acct.Priv.Sign(didkeeper.GetSignData(acct.S(), message))
	if err != nil {
		panic(err)
	}
	return &didtypes.BindingProof{Version: 1, Message: message, Timestamp: ts, Did: did, Account: acct.S(),
		Signature: "tendermint/PubKeySecp256k1." + base64.StdEncoding.EncodeToString(acct.Priv.PubKey().Bytes()) + "." + base64.StdEncoding.EncodeToString(sig)}
}

// BindingMsg binds acct to sid (creating the sid document on first use), submitted by creator.
func BindingMsg(sid *Sid, acct, creator *Actor, proof *didtypes.BindingProof) *didtypes.MsgBinding {
	return &didtypes.MsgBinding{Creator: creator.S(), AccountId: acct.AccountId(), RootDocId: sid.DocId, Keys: sid.Keys,
		AccountAuth: &didtypes.AccountAuth{AccountDid: "did:key:acct-" + acct.Name, AccountEncryptedSeed: "s", SidEncryptedAccount: "e"}, Proof: proof}
}

// SignKid produces a JWS over m with an arbitrary kid header, signed by priv (ES256K).
func SignKid(priv *secp256k1.PrivKey, kid string, m interface{ Marshal() ([]byte, error) }) saotypes.JwsSignature {
	bz, err := m.Marshal()
	if err != nil {
		panic(err)
	}
	hb, _ := json.Marshal(map[string]string{"kid": kid, "alg": "ES256K"})
	prot := base64url.Encode(hb)
	sig, err := priv.Sign([]byte(prot + "." + base64url.Encode(bz)))
	if err != nil {
		panic(err)
	}
	return saotypes.JwsSignature{Protected: prot, Signature: base64url.Encode(sig)}
}

func (s *Sid) Kid(version string) string { return fmt.Sprintf("%s?version-id=%s#k1", s.Did, version) }
