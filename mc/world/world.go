// Package world builds a real sao-consensus application (app.New + InitChain with a harness-built
// genesis), names the actors of the scenarios, signs proposals / binding proofs, and provides the
// flat-snapshot state representation (one MemDB per store key) that engine X explores.
package world

import (
	"crypto/sha256"
	"encoding/binary"
	"encoding/json"
	"fmt"
	"os"
	"sort"
	"sync"
	"time"

	saodidkey "github.com/SaoNetwork/sao-did/key"
	saodidtypes "github.com/SaoNetwork/sao-did/types"
	saodidutil "github.com/SaoNetwork/sao-did/util"
	"github.com/SaoNetwork/sao/app"
	modelmod "github.com/SaoNetwork/sao/x/model"
	nodemod "github.com/SaoNetwork/sao/x/node"
	nodetypes "github.com/SaoNetwork/sao/x/node/types"
	saomod "github.com/SaoNetwork/sao/x/sao"
	saotypes "github.com/SaoNetwork/sao/x/sao/types"
	codectypes "github.com/cosmos/cosmos-sdk/codec/types"
	"github.com/cosmos/cosmos-sdk/crypto/keys/ed25519"
	"github.com/cosmos/cosmos-sdk/crypto/keys/secp256k1"
	"github.com/cosmos/cosmos-sdk/simapp"
	"github.com/cosmos/cosmos-sdk/store/cachemulti"
	"github.com/cosmos/cosmos-sdk/store/dbadapter"
	storetypes "github.com/cosmos/cosmos-sdk/store/types"
	sdk "github.com/cosmos/cosmos-sdk/types"
	authtypes "github.com/cosmos/cosmos-sdk/x/auth/types"
	banktypes "github.com/cosmos/cosmos-sdk/x/bank/types"
	govtypes "github.com/cosmos/cosmos-sdk/x/gov/types"
	govv1 "github.com/cosmos/cosmos-sdk/x/gov/types/v1"
	stakingtypes "github.com/cosmos/cosmos-sdk/x/staking/types"
	"github.com/ignite/cli/ignite/pkg/cosmoscmd"
	abci "github.com/tendermint/tendermint/abci/types"
	"github.com/tendermint/tendermint/libs/log"
	tmproto "github.com/tendermint/tendermint/proto/tendermint/types"
	dbm "github.com/tendermint/tm-db"
)

const (
	ChainID = "sao-verif"
	Denom   = "sao"
	// GasLimit is the per-transaction gas limit used by the explorer seam and by the ABCI conformance leg.
	GasLimit = 20_000_000
	Cid      = "bafkreib3yq7zvnbxnghyu7ncbmuxyn2njw2kgvmzx6ocgw2ftvkxdg3vme"
	Cid2     = "bafkreigh2akiscaildcqabsyg3dfr6chu3fgpregiymsck7e7aqa4s52zy"
	Data1    = "11111111-1111-1111-1111-111111111111"
	Data2    = "22222222-2222-2222-2222-222222222222"
	StartBal = 1_000_000_000_000
)

// Well-known actor indices (accounts of the genesis).
const (
	V  = 0 // validator operator
	O  = 1 // data owner
	G  = 2 // gateway node
	S1 = 3 // storage nodes
	S2 = 4
	S3 = 5
	S4 = 6
	W  = 7  // read-write grantee
	Q  = 8  // read-only grantee
	X  = 9  // stranger / adversary
	P  = 10 // sponsor
	G2 = 11 // second gateway
	V2 = 12 // second validator operator
	T  = 13 // outsider delegator
	NA = 14
)

var ActorName = []string{"V", "O", "G", "S1", "S2", "S3", "S4", "W", "Q", "X", "P", "G2", "V2", "T"}

var prefixOnce sync.Once

// Config selects the genesis. All fields are plain data so a config can be stored in a trace file.
type Config struct {
	BlockReward      int64  `json:"block_reward"`
	Baseline         int64  `json:"baseline"`
	APY              string `json:"apy,omitempty"`
	HalvingPeriod    int64  `json:"halving,omitempty"`
	AdjustmentPeriod int64  `json:"adjustment,omitempty"`
	OfflineTrigger   int64  `json:"offline_trigger,omitempty"`
	VstorageThresh   int64  `json:"vstorage_threshold,omitempty"`
	ShareThreshold   string `json:"share_threshold,omitempty"`
	Fishmen          []int  `json:"fishmen,omitempty"` // actor indices
	MaxPenalty       uint64 `json:"max_penalty,omitempty"`
	TwoValidators    bool   `json:"two_validators,omitempty"`
	Seed             []byte `json:"seed,omitempty"`                 // header AppHash = selection seed
	BaselineZero     bool   `json:"baseline_zero,omitempty"`        // Baseline = 0 (Baseline: 0 means "default 1")
	GenesisReward    int64  `json:"genesis_total_reward,omitempty"` // Pool.TotalReward of the genesis (to start near a halving)
	FastUnbond       bool   `json:"fast_unbond,omitempty"`          // staking unbonding time 10 s (two blocks)
	GovFast          bool   `json:"gov_fast,omitempty"`             // governance: deposit 1000 of the bond denom, voting period 15 s (three blocks)
	MaxValidators    uint32 `json:"max_validators,omitempty"`
}

func (c Config) withDefaults() Config {
	if c.Baseline == 0 {
		c.Baseline = 1
	}
	if c.OfflineTrigger == 0 {
		c.OfflineTrigger = 1_000_000_000
	}
	if c.Seed == nil {
		c.Seed = []byte{1, 2, 3, 4, 5, 6, 7, 8}
	}
	return c
}

type Actor struct {
	Idx  int
	Name string
	Priv *secp256k1.PrivKey
	Addr sdk.AccAddress
	Prov *saodidkey.Secp256k1Provider // did:key signer
	Did  string
}

func (a *Actor) S() string { return a.Addr.String() }
func (a *Actor) AccountId() string {
	return "cosmos:" + ChainID + ":" + a.Addr.String()
}

type World struct {
	App    *app.App
	Enc    cosmoscmd.EncodingConfig
	Actors []*Actor
	DB     dbm.DB
	Cfg    Config
	home   string
	ValPk  []ed25519.PrivKey
}

func (w *World) A(i int) *Actor { return w.Actors[i] }

// NameOf maps an address back to an actor name (for labels).
func (w *World) NameOf(addr string) string {
	for _, a := range w.Actors {
		if a.S() == addr {
			return a.Name
		}
	}
	return addr
}

func Sign(prov *saodidkey.Secp256k1Provider, m interface{ Marshal() ([]byte, error) }) saotypes.JwsSignature {
	bz, err := m.Marshal()
	if err != nil {
		panic(err)
	}
	jws, err := prov.CreateJWS(bz)
	if err != nil {
		panic(err)
	}
	return saotypes.JwsSignature{Protected: jws.Signatures[0].Protected, Signature: jws.Signatures[0].Signature}
}

func didOf(prov *saodidkey.Secp256k1Provider) string {
	s := Sign(prov, &saotypes.TerminateProposal{})
	kid, err := saodidtypes.JwsSignature{Protected: s.Protected, Signature: s.Signature}.GetKid()
	if err != nil {
		panic(err)
	}
	d, err := saodidutil.KidToDid(kid)
	if err != nil {
		panic(err)
	}
	return d
}

func MakeActors() []*Actor {
	var out []*Actor
	for i := 0; i < NA; i++ {
		priv := secp256k1.GenPrivKeyFromSecret([]byte{byte(i)})
		prov, err := saodidkey.NewSecp256k1Provider([]byte(fmt.Sprintf("verif-did-key-%02d-padding-to-32b", i)))
		if err != nil {
			panic(err)
		}
		out = append(out, &Actor{Idx: i, Name: ActorName[i], Priv: priv, Addr: sdk.AccAddress(priv.PubKey().Address()), Prov: prov, Did: didOf(prov)})
	}
	return out
}

// Genesis builds the application genesis for cfg.
func Genesis(enc cosmoscmd.EncodingConfig, actors []*Actor, cfg Config) (app.GenesisState, []ed25519.PrivKey) {
	cfg = cfg.withDefaults()
	cdc := enc.Marshaler
	gs := app.NewDefaultGenesisState(cdc)
	var accs []authtypes.GenesisAccount
	var bals []banktypes.Balance
	for i, a := range actors {
		accs = append(accs, authtypes.NewBaseAccount(a.Addr, a.Priv.PubKey(), uint64(i), 0))
		bals = append(bals, banktypes.Balance{Address: a.S(), Coins: sdk.NewCoins(sdk.NewInt64Coin(Denom, StartBal))})
	}
	bond := sdk.NewInt(1_000_000_000)
	var vals []stakingtypes.Validator
	var dels []stakingtypes.Delegation
	var pks []ed25519.PrivKey
	ops := []int{V}
	if cfg.TwoValidators {
		ops = append(ops, V2)
	}
	total := sdk.ZeroInt()
	for n, op := range ops {
		priv := ed25519.GenPrivKeyFromSecret([]byte(fmt.Sprintf("val%d", n)))
		pks = append(pks, *priv)
		pkAny, _ := codectypes.NewAnyWithValue(priv.PubKey())
		vals = append(vals, stakingtypes.Validator{
			OperatorAddress: sdk.ValAddress(actors[op].Addr).String(), ConsensusPubkey: pkAny,
			Status: stakingtypes.Bonded, Tokens: bond, DelegatorShares: sdk.NewDecFromInt(bond),
			UnbondingTime: time.Unix(0, 0).UTC(),
			Commission:    stakingtypes.NewCommission(sdk.ZeroDec(), sdk.ZeroDec(), sdk.ZeroDec()), MinSelfDelegation: sdk.ZeroInt(),
		})
		dels = append(dels, stakingtypes.NewDelegation(actors[op].Addr, sdk.ValAddress(actors[op].Addr), sdk.NewDecFromInt(bond)))
		total = total.Add(bond)
	}
	sp := stakingtypes.DefaultParams()
	sp.BondDenom = Denom
	if cfg.FastUnbond {
		sp.UnbondingTime = 10 * time.Second
	}
	if cfg.MaxValidators != 0 {
		sp.MaxValidators = cfg.MaxValidators
	}
	gs[stakingtypes.ModuleName] = cdc.MustMarshalJSON(stakingtypes.NewGenesisState(sp, vals, dels))
	bals = append(bals, banktypes.Balance{Address: authtypes.NewModuleAddress(stakingtypes.BondedPoolName).String(), Coins: sdk.NewCoins(sdk.NewCoin(Denom, total))})
	gs[authtypes.ModuleName] = cdc.MustMarshalJSON(authtypes.NewGenesisState(authtypes.DefaultParams(), accs))
	gs[banktypes.ModuleName] = cdc.MustMarshalJSON(banktypes.NewGenesisState(banktypes.DefaultGenesisState().Params, bals, nil, nil))
	ng := nodetypes.DefaultGenesis()
	ng.Pool.TotalPledged = sdk.NewInt64Coin(Denom, 0)
	ng.Pool.AccPledgePerByte = sdk.NewInt64DecCoin(Denom, 0)
	if cfg.GenesisReward != 0 {
		ng.Pool.TotalReward = sdk.NewInt64Coin(Denom, cfg.GenesisReward)
	}
	ng.Params.BlockReward = sdk.NewInt64Coin(Denom, cfg.BlockReward)
	ng.Params.Baseline = sdk.NewInt64Coin(Denom, cfg.Baseline)
	if cfg.BaselineZero {
		ng.Params.Baseline = sdk.NewInt64Coin(Denom, 0)
	}
	if cfg.APY != "" {
		ng.Params.AnnualPercentageYield = cfg.APY
	}
	if cfg.HalvingPeriod != 0 {
		ng.Params.HalvingPeriod = cfg.HalvingPeriod
	}
	if cfg.AdjustmentPeriod != 0 {
		ng.Params.AdjustmentPeriod = cfg.AdjustmentPeriod
	}
	ng.Params.OfflineTriggerHeight = cfg.OfflineTrigger
	if cfg.VstorageThresh != 0 {
		ng.Params.VstorageThreshold = cfg.VstorageThresh
	}
	if cfg.ShareThreshold != "" {
		ng.Params.ShareThreshold = cfg.ShareThreshold
	}
	if cfg.MaxPenalty != 0 {
		ng.Params.MaxPenalty = cfg.MaxPenalty
	}
	if len(cfg.Fishmen) > 0 {
		s := ""
		for i, f := range cfg.Fishmen {
			if i > 0 {
				s += ","
			}
			s += actors[f].S()
		}
		ng.Params.FishmenInfo = s
	}
	gs[nodetypes.ModuleName] = cdc.MustMarshalJSON(ng)
	if cfg.GovFast {
		gg := govv1.DefaultGenesisState()
		gg.DepositParams.MinDeposit = sdk.NewCoins(sdk.NewInt64Coin(Denom, 1000))
		vp := 15 * time.Second
		gg.VotingParams.VotingPeriod = &vp
		gs[govtypes.ModuleName] = cdc.MustMarshalJSON(gg)
	}
	return gs, pks
}

func SetPrefixes() { prefixOnce.Do(func() { cosmoscmd.SetPrefixes(app.AccountAddressPrefix) }) }

// NewApp returns a fresh application over db (no InitChain).
func NewApp(db dbm.DB, home string) (*app.App, cosmoscmd.EncodingConfig) {
	SetPrefixes()
	enc := cosmoscmd.MakeEncodingConfig(app.ModuleBasics)
	a := app.New(log.NewNopLogger(), db, nil, true, map[int64]bool{}, home, 0, enc, simapp.EmptyAppOptions{}).(*app.App)
	return a, enc
}

func (w *World) Header(h int64) tmproto.Header {
	return tmproto.Header{Height: h, ChainID: ChainID, Time: BlockTime(h), AppHash: w.Cfg.Seed}
}

// HeaderSeed is Header(h) with another selection seed (header AppHash).
func (w *World) HeaderSeed(h int64, seed []byte) tmproto.Header {
	hd := w.Header(h)
	hd.AppHash = seed
	return hd
}

func BlockTime(h int64) time.Time { return time.Unix(1_700_000_000+5*h, 0).UTC() }

// New builds the application, runs InitChain and BeginBlock(1) (no Commit), as a real node does.
func New(cfg Config) *World {
	cfg = cfg.withDefaults()
	home, err := os.MkdirTemp("", "saomc-home-")
	if err != nil {
		panic(err)
	}
	db := dbm.NewMemDB()
	a, enc := NewApp(db, home)
	actors := MakeActors()
	gs, pks := Genesis(enc, actors, cfg)
	bz, _ := json.Marshal(gs)
	w := &World{App: a, Enc: enc, Actors: actors, DB: db, Cfg: cfg, home: home, ValPk: pks}
	cp := simapp.DefaultConsensusParams
	cpc := *cp
	blk := *cp.Block
	blk.MaxGas = -1
	cpc.Block = &blk
	a.InitChain(abci.RequestInitChain{ChainId: ChainID, AppStateBytes: bz, ConsensusParams: &cpc, Time: BlockTime(0)})
	a.BeginBlock(abci.RequestBeginBlock{Header: w.Header(1)})
	return w
}

// NewOnDB builds the application over an existing database. fresh=true: InitChain + BeginBlock(1) as New does;
// fresh=false: the application loads the latest committed version (a process restart) and the caller begins the
// next block.
func NewOnDB(cfg Config, db dbm.DB, fresh bool) *World {
	cfg = cfg.withDefaults()
	home, err := os.MkdirTemp("", "saomc-home-")
	if err != nil {
		panic(err)
	}
	a, enc := NewApp(db, home)
	actors := MakeActors()
	w := &World{App: a, Enc: enc, Actors: actors, DB: db, Cfg: cfg, home: home}
	if fresh {
		gs, pks := Genesis(enc, actors, cfg)
		w.ValPk = pks
		bz, _ := json.Marshal(gs)
		cp := simapp.DefaultConsensusParams
		cpc := *cp
		blk := *cp.Block
		blk.MaxGas = -1
		cpc.Block = &blk
		a.InitChain(abci.RequestInitChain{ChainId: ChainID, AppStateBytes: bz, ConsensusParams: &cpc, Time: BlockTime(0)})
		a.BeginBlock(abci.RequestBeginBlock{Header: w.Header(1)})
	}
	return w
}

func (w *World) Close() { os.RemoveAll(w.home) }

// DeliverCtx is the context of the block in progress of the real app (deliver state).
func (w *World) DeliverCtx(h int64) sdk.Context {
	return w.App.NewContext(false, w.Header(h))
}

// ---------------------------------------------------------------------------------------------
// Flat state

var KVNames = []string{"acc", "authz", "bank", "staking", "mint", "distribution", "slashing", "gov", "params", "ibc", "upgrade", "feegrant", "evidence", "transfer", "icahost", "capability", "group", "sao", "node", "order", "model", "did", "market"}
var AllNames = append(append([]string{}, KVNames...), "transient_params", "mem_capability")
var CustomStores = []string{"sao", "node", "order", "model", "did", "market"}

// Flat is an explicit state: the full content of every store plus the height of the block in progress.
type Flat struct {
	DBs map[string]*dbm.MemDB
	H   int64
}

func (w *World) KeyOf(n string) storetypes.StoreKey {
	if k := w.App.GetKey(n); k != nil {
		return k
	}
	if k := w.App.GetTKey(n); k != nil {
		return k
	}
	if k := w.App.GetMemKey(n); k != nil {
		return k
	}
	panic("no store key " + n)
}

func (w *World) Snapshot(ctx sdk.Context) *Flat {
	f := &Flat{DBs: map[string]*dbm.MemDB{}, H: ctx.BlockHeight()}
	for _, n := range AllNames {
		db := dbm.NewMemDB()
		it := ctx.KVStore(w.KeyOf(n)).Iterator(nil, nil)
		for ; it.Valid(); it.Next() {
			db.Set(it.Key(), it.Value())
		}
		it.Close()
		f.DBs[n] = db
	}
	return f
}

func (f *Flat) Clone() *Flat {
	g := &Flat{DBs: make(map[string]*dbm.MemDB, len(f.DBs)), H: f.H}
	for n, db := range f.DBs {
		nd := dbm.NewMemDB()
		it, _ := db.Iterator(nil, nil)
		for ; it.Valid(); it.Next() {
			nd.Set(it.Key(), it.Value())
		}
		it.Close()
		g.DBs[n] = nd
	}
	return g
}

// Ctx opens the state for one operation: a single cachemulti layer over the flat DBs. write() flushes it.
func (w *World) Ctx(f *Flat) (sdk.Context, func()) {
	stores := map[storetypes.StoreKey]storetypes.CacheWrapper{}
	keys := map[string]storetypes.StoreKey{}
	for n, db := range f.DBs {
		k := w.KeyOf(n)
		stores[k] = dbadapter.Store{DB: db}
		keys[n] = k
	}
	cms := cachemulti.NewStore(dbm.NewMemDB(), stores, keys, nil, nil, nil)
	ctx := sdk.NewContext(cms, w.Header(f.H), false, log.NewNopLogger())
	return ctx, cms.Write
}

// View is a read-only context on f (writes made through it are never flushed).
func (w *World) View(f *Flat) sdk.Context {
	c, _ := w.Ctx(f)
	return c
}

// HashStores feeds height-independent raw content of the named stores into a sha256.
func (f *Flat) HashStores(names []string, extra ...[]byte) [32]byte {
	h := sha256.New()
	var b8 [8]byte
	for _, n := range names {
		h.Write([]byte(n))
		it, _ := f.DBs[n].Iterator(nil, nil)
		for ; it.Valid(); it.Next() {
			k, v := it.Key(), it.Value()
			binary.BigEndian.PutUint64(b8[:], uint64(len(k)))
			h.Write(b8[:])
			h.Write(k)
			binary.BigEndian.PutUint64(b8[:], uint64(len(v)))
			h.Write(b8[:])
			h.Write(v)
		}
		it.Close()
	}
	for _, e := range extra {
		binary.BigEndian.PutUint64(b8[:], uint64(len(e)))
		h.Write(b8[:])
		h.Write(e)
	}
	var out [32]byte
	copy(out[:], h.Sum(nil))
	return out
}

var KeyStores = []string{"sao", "node", "order", "model", "did", "market", "bank", "staking"}

// Key is the canonical state key: height, custom stores, bank and staking, plus caller-supplied ghost bytes.
func (f *Flat) Key(ghost []byte) [32]byte {
	var b8 [8]byte
	binary.BigEndian.PutUint64(b8[:], uint64(f.H))
	return f.HashStores(KeyStores, b8[:], ghost)
}

// DumpStores renders the named stores as sorted "store|key|value" hex lines (conformance comparison).
func (f *Flat) DumpStores(names []string) []string {
	var out []string
	for _, n := range names {
		it, _ := f.DBs[n].Iterator(nil, nil)
		for ; it.Valid(); it.Next() {
			out = append(out, fmt.Sprintf("%s|%x|%x", n, it.Key(), it.Value()))
		}
		it.Close()
	}
	sort.Strings(out)
	return out
}

// ---------------------------------------------------------------------------------------------
// Operations on a context

// Flow is one bank transfer observed in the events of an operation ("" = minted / burned).
type Flow struct {
	From, To string
	Amt      sdk.Int
}

// FlowsOf extracts bank transfers, mints and burns (bond denom only) from emitted events.
func FlowsOf(evs sdk.Events) []Flow { return FlowsOfABCI(evs.ToABCIEvents()) }

// FlowsOfABCI does the same on ABCI events (what a handler's sdk.Result and a DeliverTx response carry).
func FlowsOfABCI(evs []abci.Event) []Flow {
	var out []Flow
	amt := func(s string) sdk.Int {
		cs, err := sdk.ParseCoinsNormalized(s)
		if err != nil {
			return sdk.ZeroInt()
		}
		return cs.AmountOf(Denom)
	}
	for _, e := range evs {
		var from, to, a string
		for _, at := range e.Attributes {
			switch string(at.Key) {
			case "sender", "burner":
				from = string(at.Value)
			case "recipient", "minter":
				to = string(at.Value)
			case "amount":
				a = string(at.Value)
			}
		}
		switch e.Type {
		case "transfer":
			out = append(out, Flow{From: from, To: to, Amt: amt(a)})
		case "coinbase":
			out = append(out, Flow{From: "", To: to, Amt: amt(a)})
		case "burn":
			out = append(out, Flow{From: from, To: "", Amt: amt(a)})
		}
	}
	return out
}

type Result struct {
	Flows      []Flow
	OK         bool
	Err        string
	Panic      bool
	OutOfGas   bool
	Data       []byte
	Events     sdk.Events
	ABCIEvents []abci.Event
	GasUsed    uint64
}

// Exec runs msg exactly as baseapp.runMsgs does for one message: ValidateBasic, registered handler on a
// branched store with a finite gas meter; state is written only on success; a panic is recovered like
// baseapp's runTx recovery middleware does (out-of-gas and others both become a failed tx).
func (w *World) Exec(ctx sdk.Context, msg sdk.Msg) (r Result) {
	cc, write := ctx.CacheContext()
	gm := sdk.NewGasMeter(GasLimit)
	cc = cc.WithGasMeter(gm).WithEventManager(sdk.NewEventManager())
	defer func() {
		if rec := recover(); rec != nil {
			r = Result{Panic: true, Err: fmt.Sprintf("PANIC: %v", rec), GasUsed: gm.GasConsumed()}
			if _, ok := rec.(sdk.ErrorOutOfGas); ok {
				r.OutOfGas = true
				r.Panic = false
				r.Err = "out of gas"
			}
		}
	}()
	if err := msg.ValidateBasic(); err != nil {
		return Result{Err: "validate basic: " + err.Error()}
	}
	h := w.App.MsgServiceRouter().Handler(msg)
	if h == nil {
		return Result{Err: "no handler"}
	}
	res, err := h(cc, msg)
	if err != nil {
		return Result{Err: err.Error(), GasUsed: gm.GasConsumed()}
	}
	write()
	return Result{OK: true, Data: res.Data, ABCIEvents: res.Events, Flows: FlowsOfABCI(res.Events), GasUsed: gm.GasConsumed()}
}

// EndBlockers runs the custom end-blockers in application order at ctx's height. No recovery: a panic here
// is what halts a real chain.
func (w *World) EndBlockers(ctx sdk.Context) {
	saomod.EndBlocker(ctx, w.App.SaoKeeper)
	nodemod.EndBlock(ctx, w.App.NodeKeeper)
	modelmod.EndBlocker(ctx, w.App.ModelKeeper)
}

func (w *World) BeginBlockers(ctx sdk.Context) {
	nodemod.BeginBlocker(ctx, w.App.NodeKeeper)
}

func (w *World) Bal(ctx sdk.Context, a sdk.AccAddress) sdk.Int {
	return w.App.BankKeeper.GetBalance(ctx, a, Denom).Amount
}

func ModAddr(name string) sdk.AccAddress { return authtypes.NewModuleAddress(name) }
