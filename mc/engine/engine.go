// Package engine is engine X of DESIGN.md: an explicit-state, depth-bounded, iterative-deepening search
// over flat snapshots of the real application state. Transitions call the repository's own message
// handlers and begin/end-blockers; oracles are evaluated on every state and every transition.
package engine

import (
	"encoding/hex"
	"encoding/json"
	"fmt"
	"os"
	"sort"
	"strings"
	"sync/atomic"
	"syscall"
	"time"

	"saomc/world"

	sdk "github.com/cosmos/cosmos-sdk/types"
)

// Op is one enabled operation in a state.
type Op struct {
	Label string  // unique within the state, deterministic, carries all arguments
	Kind  string  // operation kind, used for statistics and in finding signatures
	Msg   sdk.Msg // transaction (nil for block advance / custom)
	EndTo int64   // >0: run end-blockers up to and including this height, new block in progress = EndTo+1
	// Custom is an environment move that is neither a tx nor a block advance (e.g. bank send by harness).
	Custom func(w *world.World, ctx sdk.Context) world.Result
	// Meta carries oracle-relevant facts about the operation (e.g. the victim of an adversarial request).
	Meta map[string]string
}

type Ghost interface {
	Clone() Ghost
	Bytes() []byte // canonical encoding, part of the state key
}

type State struct {
	F     *world.Flat
	Memo  map[string]interface{} // oracle scratch (not part of the key)
	G     Ghost
	Viol  map[string]string // violated state clauses (signature -> detail), for first-broken-by-step reporting
	Depth int
}

type Finding struct {
	Property string   `json:"property"`
	Clause   string   `json:"clause"`
	Op       string   `json:"op"`
	Disc     string   `json:"disc"`
	Detail   string   `json:"detail"`
	Root     string   `json:"root"`
	Trace    []string `json:"trace"`
}

func (f Finding) Sig() string {
	s := f.Property + "/" + f.Clause + "/" + f.Op
	if f.Disc != "" {
		s += "/" + f.Disc
	}
	return s
}

type StepInfo struct {
	W       *world.World
	Pre     *State
	PreCtx  sdk.Context
	Op      *Op
	Res     world.Result
	Post    *State // nil when the op failed (state unchanged)
	PostCtx sdk.Context
	Halt    string // non-empty: EndBegin panicked (chain halt); Post is nil
}

// Oracle evaluates one property (or a family sharing an exploration).
type Oracle interface {
	// InitGhost returns the ghost of a root state.
	InitGhost(w *world.World, ctx sdk.Context) Ghost
	// Step is called for every transition (also failed ones). It updates si.Post.G (already a clone of the
	// pre ghost) and returns step findings.
	Step(si *StepInfo) []Finding
	// State returns the state-invariant clauses violated in s (signature-less findings: Property, Clause, Disc, Detail).
	State(w *world.World, ctx sdk.Context, s *State) []Finding
	// NonTrivial tells whether a state counts as a non-trivial oracle evaluation (evidence).
	NonTrivial(w *world.World, ctx sdk.Context, s *State) bool
}

type SetupStep = func(w *world.World, ctx sdk.Context) Op

type Root struct {
	Name  string
	Setup func(w *world.World) []SetupStep
}

type Scenario struct {
	ID      string
	Cfg     world.Config
	Roots   []Root
	Ops     func(w *world.World, ctx sdk.Context, s *State) []Op
	Oracle  Oracle
	Depth   int
	Rewards bool // run node.BeginBlocker at every skipped height
	// IgnoreHalt: an EndBegin panic is a leaf but not reported by this scenario (C02 owns it).
	ReportHalt bool
	HaltProp   string
}

type Stats struct {
	States       int            `json:"states"`
	Transitions  int            `json:"transitions"`
	RootErrors   []string       `json:"root_errors,omitempty"`
	OKByKind     map[string]int `json:"ok_by_kind"`
	FailByKind   map[string]int `json:"fail_by_kind"`
	PanicTx      int            `json:"tx_panics"`
	OutOfGas     int            `json:"tx_out_of_gas"`
	Halts        int            `json:"halts"`
	NonTrivial   int            `json:"nontrivial_states"`
	MaxDepth     int            `json:"max_depth"`
	DepthDone    int            `json:"depth_completed"`
	Exhaustive   bool           `json:"exhaustive"`
	Jumps        int            `json:"jumps"`
	JumpChecks   int            `json:"jump_side_condition_checks"`
	WallS        float64        `json:"wall_s"`
	DistinctOuts map[string]int `json:"distinct_outcomes"`
	PanicKinds   map[string]int `json:"tx_panic_kinds"`
}

type Output struct {
	Scenario string     `json:"scenario"`
	Shard    int        `json:"shard"`
	Of       int        `json:"of"`
	Stats    Stats      `json:"stats"`
	Findings []Finding  `json:"findings"`
	Samples  [][]string `json:"samples"`
	Hang     *Finding   `json:"hang,omitempty"`
	// conformance leg: explorer traces replayed through the real ABCI pipeline
	ConformOK     int      `json:"conform_ok"`
	ConformSteps  int      `json:"conform_steps"`
	ConformBlocks int64    `json:"conform_blocks"`
	ConformErrs   []string `json:"conform_errs,omitempty"`
}

// ---------------------------------------------------------------------------------------------

type Explorer struct {
	W        *world.World
	Sc       *Scenario
	Shard    int
	Of       int
	SplitLvl int
	Deadline time.Time

	visited  map[[32]byte]int8
	seenAll  map[[32]byte]struct{}
	findings map[string]Finding
	stats    Stats
	samples  [][]string
	ConfWant int        // number of traces to keep for the conformance leg
	confCand [][]string // [root, labels...]
	subtree  int
	root     string
	trace    []string
	capHit   bool

	// watchdog
	curTrace atomic.Value // []string
	curTick  atomic.Int64
	done     atomic.Bool
	outPath  string
}

func cpuSeconds() float64 {
	var ru syscall.Rusage
	syscall.Getrusage(syscall.RUSAGE_SELF, &ru)
	return float64(ru.Utime.Sec) + float64(ru.Utime.Usec)/1e6 + float64(ru.Stime.Sec) + float64(ru.Stime.Usec)/1e6
}

// HangCPUSeconds: a single transition that has consumed this much process CPU is declared non-terminating
// (the slowest terminating transition measured is a few ms; 3600-block reward jumps ≈0.2 s).
const HangCPUSeconds = 25.0

func (e *Explorer) watchdog() {
	lastTick := int64(-1)
	var startCPU float64
	for {
		time.Sleep(500 * time.Millisecond)
		if e.done.Load() {
			return
		}
		t := e.curTick.Load()
		if t != lastTick {
			lastTick = t
			startCPU = cpuSeconds()
			continue
		}
		if t%2 == 0 {
			continue // between transitions (oracle / bookkeeping code of the harness)
		}
		if cpuSeconds()-startCPU > HangCPUSeconds {
			tr, _ := e.curTrace.Load().([]string)
			op := "?"
			if len(tr) > 0 {
				op = kindOfLabel(tr[len(tr)-1])
			}
			f := Finding{Property: "C02", Clause: "non-termination", Op: op, Detail: fmt.Sprintf("transition consumed > %.0f CPU-seconds", HangCPUSeconds), Root: e.root, Trace: tr}
			out := Output{Scenario: e.Sc.ID, Shard: e.Shard, Of: e.Of, Stats: e.stats, Hang: &f}
			bz, _ := json.Marshal(out)
			if e.outPath != "" {
				os.WriteFile(e.outPath, bz, 0o644)
			}
			fmt.Fprintf(os.Stderr, "WATCHDOG: non-terminating transition, trace=%v\n", tr)
			os.Exit(3)
		}
	}
}

func kindOfLabel(l string) string {
	if i := strings.IndexAny(l, "(@ "); i > 0 {
		return l[:i]
	}
	return l
}

func NewExplorer(w *world.World, sc *Scenario, shard, of int, outPath string, deadline time.Time) *Explorer {
	e := &Explorer{W: w, Sc: sc, Shard: shard, Of: of, SplitLvl: 2, Deadline: deadline, outPath: outPath}
	e.findings = map[string]Finding{}
	e.seenAll = map[[32]byte]struct{}{}
	e.stats.OKByKind = map[string]int{}
	e.stats.FailByKind = map[string]int{}
	e.stats.DistinctOuts = map[string]int{}
	e.stats.PanicKinds = map[string]int{}
	go e.watchdog()
	return e
}

func tryBuildRoot(w *world.World, r Root, rewards bool) (f *world.Flat, err string) {
	defer func() {
		if rec := recover(); rec != nil {
			msg := fmt.Sprint(rec)
			if strings.HasPrefix(msg, "HARNESS: root ") || strings.HasPrefix(msg, "HARNESS: CompleteNth") {
				f, err = nil, msg
				return
			}
			panic(rec)
		}
	}()
	return BuildRoot(w, r, rewards), ""
}

// BuildRoot executes the root's setup operations on the genesis snapshot. Every setup op must succeed.
func BuildRoot(w *world.World, r Root, rewards bool) *world.Flat {
	f := w.Snapshot(w.DeliverCtx(1))
	for i, mk := range r.Setup(w) {
		ctx, write := w.Ctx(f)
		op := mk(w, ctx)
		res, halt := Apply(w, f, ctx, write, &op, rewards, nil)
		if halt != "" || !res.OK {
			panic(fmt.Sprintf("HARNESS: root %s setup step %d (%s) failed: %s %s", r.Name, i, op.Label, res.Err, halt))
		}
	}
	return f
}

// Apply runs op on state f through ctx/write. Returns the tx result, or halt != "" if a blocker panicked.
func Apply(w *world.World, f *world.Flat, ctx sdk.Context, write func(), op *Op, rewards bool, st *Stats) (res world.Result, halt string) {
	switch {
	case op.Msg != nil:
		res = w.Exec(ctx, op.Msg)
		if res.OK {
			write()
		}
		return res, ""
	case op.Custom != nil:
		func() {
			defer func() {
				if r := recover(); r != nil {
					halt = fmt.Sprint(r)
					if strings.HasPrefix(halt, "HARNESS") {
						panic(r)
					}
				}
			}()
			res = op.Custom(w, ctx)
		}()
		if halt != "" {
			return world.Result{}, halt
		}
		if res.OK {
			write()
			if op.Meta != nil && op.Meta["advance"] == "1" {
				f.H++
			}
		}
		return res, ""
	case op.EndTo > 0:
		func() {
			defer func() {
				if r := recover(); r != nil {
					halt = fmt.Sprint(r)
					if strings.HasPrefix(halt, "HARNESS") {
						panic(r) // a harness self-check failed: never a verdict about the repository
					}
				}
			}()
			h := f.H
			em := sdk.NewEventManager()
			ctx = ctx.WithEventManager(em)
			defer func() { res.Events = em.Events(); res.Flows = world.FlowsOf(res.Events) }()
			if op.EndTo < h {
				panic(fmt.Sprintf("HARNESS: EndTo %d < height %d", op.EndTo, h))
			}
			if op.EndTo > h {
				if st != nil {
					st.Jumps++
				}
				// side condition of a jump: end-blockers at skipped heights do not touch the state.
				for _, g := range []int64{h, op.EndTo - 1} {
					before := f.HashStores(world.KeyStores)
					c2, w2 := w.Ctx(f)
					w.EndBlockers(c2.WithBlockHeight(g))
					w2()
					if f.HashStores(world.KeyStores) != before {
						panic(fmt.Sprintf("HARNESS: jump %d->%d skips height %d whose end-blockers change the state", h, op.EndTo, g))
					}
					if st != nil {
						st.JumpChecks++
					}
					if g == op.EndTo-1 {
						break
					}
				}
			}
			for g := h; g <= op.EndTo; g++ {
				if g == op.EndTo {
					w.EndBlockers(ctx.WithBlockHeight(g).WithBlockHeader(w.Header(g)))
				}
				if rewards || g == op.EndTo {
					w.BeginBlockers(ctx.WithBlockHeight(g + 1).WithBlockHeader(w.Header(g + 1)))
				}
			}
		}()
		if halt != "" {
			return world.Result{}, halt
		}
		write()
		f.H = op.EndTo + 1
		res.OK = true
		return res, ""
	}
	panic("HARNESS: empty op " + op.Label)
}

func (e *Explorer) addFinding(f Finding) {
	f.Root = e.root
	f.Trace = append([]string{}, e.trace...)
	sig := f.Sig()
	if old, ok := e.findings[sig]; !ok || len(f.Trace) < len(old.Trace) {
		e.findings[sig] = f
	}
}

func (e *Explorer) mkState(f *world.Flat, g Ghost, depth int) *State {
	s := &State{F: f, G: g, Depth: depth}
	ctx := e.W.View(f)
	s.Viol = map[string]string{}
	for _, fd := range e.Sc.Oracle.State(e.W, ctx, s) {
		s.Viol[fd.Property+"/"+fd.Clause+"/"+fd.Disc] = fd.Detail
	}
	return s
}

// Run explores all roots with iterative deepening up to Sc.Depth.
func (e *Explorer) Run() Output {
	t0 := time.Now()
	e.stats.Exhaustive = true
	type rootState struct {
		name string
		f    *world.Flat
	}
	var roots []rootState
	for i, r := range e.Sc.Roots {
		// a root whose setup cannot be executed on this tree is skipped and reported: the check then gives a verdict
		// only if it finds a reproducible violation elsewhere, otherwise it ends as a harness error
		f, rootErr := tryBuildRoot(e.W, r, e.Sc.Rewards)
		if rootErr != "" {
			e.stats.RootErrors = append(e.stats.RootErrors, e.Sc.ID+"/"+r.Name+": "+rootErr)
			continue
		}
		if i == 0 {
			// self-check: the same setup executed twice gives byte-identical states
			if f2 := BuildRoot(e.W, r, e.Sc.Rewards); f2.Key(nil) != f.Key(nil) {
				panic("HARNESS: root " + r.Name + " built twice gives different states (nondeterministic harness or code under test)")
			}
		}
		roots = append(roots, rootState{r.Name, f})
	}
	for d := 1; d <= e.Sc.Depth; d++ {
		e.visited = map[[32]byte]int8{}
		e.subtree = 0
		for _, r := range roots {
			e.root = r.name
			e.trace = nil
			ctx := e.W.View(r.f)
			s := e.mkState(r.f, e.Sc.Oracle.InitGhost(e.W, ctx), 0)
			for sig, det := range s.Viol {
				p := strings.SplitN(sig, "/", 3)
				e.addFinding(Finding{Property: p[0], Clause: p[1], Disc: p[2], Op: "root", Detail: det})
			}
			e.dfs(s, d)
		}
		if e.capHit {
			e.stats.Exhaustive = false
			break
		}
		e.stats.DepthDone = d
	}
	e.done.Store(true)
	e.stats.States = len(e.seenAll)
	e.stats.WallS = time.Since(t0).Seconds()
	out := Output{Scenario: e.Sc.ID, Shard: e.Shard, Of: e.Of, Stats: e.stats, Samples: e.samples}
	var sigs []string
	for s := range e.findings {
		sigs = append(sigs, s)
	}
	sort.Strings(sigs)
	for _, s := range sigs {
		out.Findings = append(out.Findings, e.findings[s])
	}
	return out
}

// keepForConformance keeps maximal traces that differ early (distinct second operation) and contain a block advance.
func (e *Explorer) keepForConformance() {
	if len(e.confCand) >= e.ConfWant {
		return
	}
	hasEnd := false
	for _, l := range e.trace {
		if strings.HasPrefix(l, "end@") || strings.HasPrefix(l, "fullend@") {
			hasEnd = true
		}
	}
	if !hasEnd {
		return
	}
	for _, c := range e.confCand {
		if len(c) > 3 && len(e.trace) > 2 && c[0] == e.root && c[1] == e.trace[0] && c[2] == e.trace[1] && c[3] == e.trace[2] {
			return
		}
	}
	e.confCand = append(e.confCand, append([]string{e.root}, e.trace...))
}

// RunConformance replays the kept traces through the real ABCI pipeline.
func (e *Explorer) RunConformance(out *Output) {
	for _, c := range e.confCand {
		if time.Now().After(e.Deadline) {
			break
		}
		steps, blocks, err := Conform(e.Sc, c[0], c[1:])
		out.ConformSteps += steps
		out.ConformBlocks += blocks
		if err != nil {
			out.ConformErrs = append(out.ConformErrs, fmt.Sprintf("%s %v: %v", e.Sc.ID, c, err))
		} else {
			out.ConformOK++
		}
	}
}

func (e *Explorer) mine(level int) bool {
	// levels above the split level are walked by every shard but counted by shard 0 only
	return level > e.SplitLvl || e.Shard == 0
}

func (e *Explorer) dfs(s *State, remaining int) {
	var gb []byte
	if s.G != nil {
		gb = s.G.Bytes()
	}
	k := s.F.Key(gb)
	if v, ok := e.visited[k]; ok && int(v) >= remaining {
		return
	}
	e.visited[k] = int8(remaining)
	level := len(e.trace)
	if _, ok := e.seenAll[k]; !ok && e.mine(level) {
		e.seenAll[k] = struct{}{}
		if e.Sc.Oracle.NonTrivial(e.W, e.W.View(s.F), s) {
			e.stats.NonTrivial++
		}
	}
	if level > e.stats.MaxDepth {
		e.stats.MaxDepth = level
	}
	if remaining == 0 {
		if len(e.samples) < 3 && level >= 3 && e.mine(level) {
			e.samples = append(e.samples, append([]string{e.root}, e.trace...))
		}
		if level == e.Sc.Depth && e.mine(level) {
			e.keepForConformance()
		}
		return
	}
	if time.Now().After(e.Deadline) {
		e.capHit = true
		return
	}
	pctx := e.W.View(s.F)
	ops := e.Sc.Ops(e.W, pctx, s)
	for i := range ops {
		op := &ops[i]
		if level == e.SplitLvl {
			idx := e.subtree
			e.subtree++
			if idx%e.Of != e.Shard {
				continue
			}
		}
		e.trace = append(e.trace, op.Label)
		e.step(s, pctx, op, remaining)
		e.trace = e.trace[:len(e.trace)-1]
		if e.capHit {
			return
		}
	}
}

func (e *Explorer) step(s *State, pctx sdk.Context, op *Op, remaining int) {
	level := len(e.trace) - 1
	count := e.mine(level)
	child := s.F.Clone()
	cctx, write := e.W.Ctx(child)
	e.curTrace.Store(append([]string{}, e.trace...))
	e.curTick.Add(1)
	res, halt := Apply(e.W, child, cctx, write, op, e.Sc.Rewards, &e.stats)
	e.curTick.Add(1)
	if count {
		e.stats.Transitions++
	}
	si := &StepInfo{W: e.W, Pre: s, PreCtx: pctx, Op: op, Res: res, Halt: halt}
	if halt != "" {
		if count {
			e.stats.Halts++
		}
		if e.Sc.ReportHalt {
			e.addFinding(Finding{Property: e.Sc.HaltProp, Clause: "halt", Op: op.Kind, Disc: normPanic(halt), Detail: halt})
		}
		for _, f := range e.Sc.Oracle.Step(si) {
			f.Op = op.Kind
			e.addFinding(f)
		}
		return
	}
	if !res.OK {
		if count {
			e.stats.FailByKind[op.Kind]++
			if res.Panic {
				e.stats.PanicTx++
				e.stats.PanicKinds[op.Kind+": "+normPanic(res.Err)]++
			}
			if res.OutOfGas {
				e.stats.OutOfGas++
			}
		}
		for _, f := range e.Sc.Oracle.Step(si) {
			f.Op = op.Kind
			e.addFinding(f)
		}
		return
	}
	if count {
		e.stats.OKByKind[op.Kind]++
	}
	var g Ghost
	if s.G != nil {
		g = s.G.Clone()
	}
	post := &State{F: child, G: g, Depth: s.Depth + 1}
	si.Post = post
	si.PostCtx = e.W.View(child)
	for _, f := range e.Sc.Oracle.Step(si) {
		f.Op = op.Kind
		e.addFinding(f)
	}
	post.Viol = map[string]string{}
	for _, fd := range e.Sc.Oracle.State(e.W, si.PostCtx, post) {
		sig := fd.Property + "/" + fd.Clause + "/" + fd.Disc
		post.Viol[sig] = fd.Detail
		if _, was := s.Viol[sig]; !was {
			fd.Op = op.Kind
			e.addFinding(fd)
		}
	}
	e.dfs(post, remaining-1)
}

func normPanic(s string) string {
	// keep the message class, drop numbers and addresses
	out := make([]rune, 0, len(s))
	for _, r := range s {
		if r >= '0' && r <= '9' {
			continue
		}
		out = append(out, r)
	}
	t := string(out)
	if len(t) > 60 {
		t = t[:60]
	}
	return strings.TrimSpace(t)
}

func HexKey(k [32]byte) string { return hex.EncodeToString(k[:8]) }

// Replay re-executes a trace (labels) from the named root with the scenario's oracle and returns every
// finding met on the way (step findings and newly violated state clauses). A label that is not enabled in
// the state it is applied to is a hard error.
func Replay(w *world.World, sc *Scenario, rootName string, labels []string, log interface{ Write([]byte) (int, error) }) []Finding {
	var root *Root
	for i := range sc.Roots {
		if sc.Roots[i].Name == rootName {
			root = &sc.Roots[i]
		}
	}
	if root == nil {
		panic("HARNESS: no root " + rootName)
	}
	f := BuildRoot(w, *root, sc.Rewards)
	ctx := w.View(f)
	s := &State{F: f, G: sc.Oracle.InitGhost(w, ctx)}
	s.Viol = map[string]string{}
	for _, fd := range sc.Oracle.State(w, ctx, s) {
		s.Viol[fd.Property+"/"+fd.Clause+"/"+fd.Disc] = fd.Detail
	}
	var out []Finding
	for sig, det := range s.Viol {
		p := strings.SplitN(sig, "/", 3)
		out = append(out, Finding{Property: p[0], Clause: p[1], Disc: p[2], Op: "root", Detail: det})
	}
	for i, l := range labels {
		pctx := w.View(s.F)
		var op *Op
		ops := sc.Ops(w, pctx, s)
		for j := range ops {
			if ops[j].Label == l {
				op = &ops[j]
			}
		}
		if op == nil {
			panic(fmt.Sprintf("HARNESS: replay step %d: %q is not enabled", i, l))
		}
		child := s.F.Clone()
		cctx, write := w.Ctx(child)
		res, halt := Apply(w, child, cctx, write, op, sc.Rewards, nil)
		fmt.Fprintf(log, "  step %d h=%d %-40s ok=%v %s %s\n", i, s.F.H, l, res.OK, res.Err, halt)
		si := &StepInfo{W: w, Pre: s, PreCtx: pctx, Op: op, Res: res, Halt: halt}
		if halt != "" {
			if sc.ReportHalt {
				out = append(out, Finding{Property: sc.HaltProp, Clause: "halt", Op: op.Kind, Disc: normPanic(halt), Detail: halt})
			}
			for _, fd := range sc.Oracle.Step(si) {
				fd.Op = op.Kind
				out = append(out, fd)
			}
			break
		}
		if !res.OK {
			for _, fd := range sc.Oracle.Step(si) {
				fd.Op = op.Kind
				out = append(out, fd)
			}
			continue
		}
		var g Ghost
		if s.G != nil {
			g = s.G.Clone()
		}
		post := &State{F: child, G: g, Depth: s.Depth + 1}
		si.Post = post
		si.PostCtx = w.View(child)
		for _, fd := range sc.Oracle.Step(si) {
			fd.Op = op.Kind
			out = append(out, fd)
		}
		post.Viol = map[string]string{}
		for _, fd := range sc.Oracle.State(w, si.PostCtx, post) {
			sig := fd.Property + "/" + fd.Clause + "/" + fd.Disc
			post.Viol[sig] = fd.Detail
			if _, was := s.Viol[sig]; !was {
				fd.Op = op.Kind
				out = append(out, fd)
			}
		}
		s = post
	}
	return out
}

// EnabledAfter lists the labels enabled after replaying the trace (debug aid for writing traces by hand).
func EnabledAfter(w *world.World, sc *Scenario, rootName string, labels []string) []string {
	var root *Root
	for i := range sc.Roots {
		if sc.Roots[i].Name == rootName {
			root = &sc.Roots[i]
		}
	}
	f := BuildRoot(w, *root, sc.Rewards)
	s := &State{F: f, G: sc.Oracle.InitGhost(w, w.View(f))}
	for _, l := range labels {
		for _, op := range sc.Ops(w, w.View(s.F), s) {
			if op.Label == l {
				op := op
				ctx, write := w.Ctx(s.F)
				Apply(w, s.F, ctx, write, &op, sc.Rewards, nil)
			}
		}
	}
	var out []string
	for _, op := range sc.Ops(w, w.View(s.F), s) {
		out = append(out, op.Label)
	}
	return out
}
