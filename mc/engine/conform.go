package engine

import (
	"fmt"
	"math/rand"
	"sort"

	"saomc/world"

	"github.com/cosmos/cosmos-sdk/simapp/helpers"
	sdk "github.com/cosmos/cosmos-sdk/types"
	abci "github.com/tendermint/tendermint/abci/types"
)

// Conform replays one explorer trace twice in lock-step: (a) on the explorer seam (flat state, handlers through
// the router, custom blockers, height jumps) and (b) through the real ABCI pipeline of a fresh application —
// signed transactions through DeliverTx (ante handler, gas meter, panic recovery), EVERY height through the
// full module manager with Commit. After every step the raw content of the six custom stores and the bank
// balances of all actors and custom module accounts must be identical. A mismatch means the explorer's
// abstraction is wrong (harness error), never a property verdict.
func Conform(sc *Scenario, rootName string, labels []string) (steps int, blocks int64, err error) {
	var root *Root
	for i := range sc.Roots {
		if sc.Roots[i].Name == rootName {
			root = &sc.Roots[i]
		}
	}
	if root == nil {
		return 0, 0, fmt.Errorf("no root %s", rootName)
	}
	wx := world.New(sc.Cfg) // explorer side
	defer wx.Close()
	wr := world.New(sc.Cfg) // real ABCI side (InitChain + BeginBlock(1) done)
	defer wr.Close()
	f := wx.Snapshot(wx.DeliverCtx(1))
	h := int64(1)

	addrIdx := map[string]int{}
	for i, a := range wr.Actors {
		addrIdx[a.S()] = i
	}
	deliver := func(msg sdk.Msg) (bool, string) {
		signer := msg.GetSigners()[0].String()
		i, ok := addrIdx[signer]
		if !ok {
			return false, "unknown signer"
		}
		ctx := wr.DeliverCtx(h)
		acc := wr.App.AccountKeeper.GetAccount(ctx, wr.Actors[i].Addr)
		tx, e := helpers.GenSignedMockTx(rand.New(rand.NewSource(1)), wr.Enc.TxConfig, []sdk.Msg{msg}, sdk.NewCoins(), world.GasLimit, world.ChainID,
			[]uint64{acc.GetAccountNumber()}, []uint64{acc.GetSequence()}, wr.Actors[i].Priv)
		if e != nil {
			return false, e.Error()
		}
		bz, e := wr.Enc.TxConfig.TxEncoder()(tx)
		if e != nil {
			return false, e.Error()
		}
		r := wr.App.DeliverTx(abci.RequestDeliverTx{Tx: bz})
		return r.Code == 0, r.Log
	}
	advance := func(to int64) {
		for ; h <= to; h++ {
			wr.App.EndBlock(abci.RequestEndBlock{Height: h})
			wr.App.Commit()
			wr.App.BeginBlock(abci.RequestBeginBlock{Header: wr.Header(h + 1)})
			blocks++
		}
	}
	compare := func(step int, label string) error {
		a := f.DumpStores(world.CustomStores)
		ctx := wr.DeliverCtx(h)
		var b []string
		for _, n := range world.CustomStores {
			it := ctx.KVStore(wr.KeyOf(n)).Iterator(nil, nil)
			for ; it.Valid(); it.Next() {
				b = append(b, fmt.Sprintf("%s|%x|%x", n, it.Key(), it.Value()))
			}
			it.Close()
		}
		sort.Strings(b)
		xctx := wx.View(f)
		for _, act := range wx.Actors {
			a = append(a, fmt.Sprintf("bal %s %s", act.Name, wx.Bal(xctx, act.Addr)))
			b = append(b, fmt.Sprintf("bal %s %s", act.Name, wr.Bal(ctx, act.Addr)))
		}
		for _, m := range []string{"sao", "node", "order", "model", "did", "market"} {
			a = append(a, fmt.Sprintf("modbal %s %s", m, wx.Bal(xctx, world.ModAddr(m))))
			b = append(b, fmt.Sprintf("modbal %s %s", m, wr.Bal(ctx, world.ModAddr(m))))
		}
		if f.H != h {
			return fmt.Errorf("step %d (%s): explorer height %d, abci height %d", step, label, f.H, h)
		}
		if len(a) != len(b) {
			return fmt.Errorf("step %d (%s): %d explorer entries vs %d abci entries", step, label, len(a), len(b))
		}
		for i := range a {
			if a[i] != b[i] {
				return fmt.Errorf("step %d (%s): first difference\n  explorer: %.200s\n  abci    : %.200s", step, label, a[i], b[i])
			}
		}
		return nil
	}
	apply := func(step int, op *Op) error {
		ctx, write := wx.Ctx(f)
		res, halt := Apply(wx, f, ctx, write, op, sc.Rewards, nil)
		if halt != "" {
			return fmt.Errorf("halt in conformance trace (not selected for conformance): %s", halt)
		}
		switch {
		case op.Msg != nil:
			ok, log := deliver(op.Msg)
			if ok != res.OK {
				return fmt.Errorf("step %d (%s): explorer ok=%v (%s), DeliverTx ok=%v (%s)", step, op.Label, res.OK, res.Err, ok, log)
			}
		case op.EndTo > 0:
			advance(op.EndTo)
		case op.Kind == "fullend":
			// the explorer ran the whole module manager's end-blocker at this height; real ABCI does the same
			advance(h)
		case op.Kind == "skip":
		case op.Kind == "regenesis" && op.Custom != nil:
			// environment move on the modules' state: performed on the real application's deliver state as well
			op.Custom(wr, wr.DeliverCtx(h))
		default:
			return fmt.Errorf("step %d (%s): custom op not supported by conformance", step, op.Label)
		}
		steps++
		return compare(step, op.Label)
	}
	for i, mk := range root.Setup(wx) {
		op := mk(wx, wx.View(f))
		if e := apply(-100+i, &op); e != nil {
			return steps, blocks, e
		}
	}
	g := sc.Oracle.InitGhost(wx, wx.View(f))
	_ = g
	s := &State{F: f, G: g}
	for i, l := range labels {
		pctx := wx.View(f)
		var op *Op
		ops := sc.Ops(wx, pctx, s)
		for j := range ops {
			if ops[j].Label == l {
				op = &ops[j]
			}
		}
		if op == nil {
			return steps, blocks, fmt.Errorf("step %d: %q not enabled", i, l)
		}
		if e := apply(i, op); e != nil {
			return steps, blocks, e
		}
	}
	return steps, blocks, nil
}
