package engine

import (
	"encoding/json"
	"fmt"
	"os"
	"sync"
	"sync/atomic"
	"time"
)

// Guard is the CPU-time watchdog for code driven outside the explorer (engine E / engine R legs): Enter(label)
// before a call into the repository, Leave() after it. A call that burns more than HangCPUSeconds of process CPU
// is declared non-terminating: the hang record is written to the guard's output file and the process exits 3.
type guardT struct {
	tick  atomic.Int64
	label atomic.Value
	once  sync.Once
	out   string
	prop  string
}

var guard guardT

type HangRecord struct {
	Hang Finding `json:"hang"`
}

func StartGuard(outPath, property string) {
	guard.out, guard.prop = outPath, property
	guard.once.Do(func() {
		go func() {
			last := int64(-1)
			var start float64
			for {
				time.Sleep(500 * time.Millisecond)
				t := guard.tick.Load()
				if t != last {
					last, start = t, cpuSeconds()
					continue
				}
				if t%2 == 0 {
					continue
				}
				if cpuSeconds()-start > HangCPUSeconds {
					l, _ := guard.label.Load().(string)
					rec := HangRecord{Hang: Finding{Property: guard.prop, Clause: "non-termination", Op: kindOfLabel(l), Detail: fmt.Sprintf("call consumed > %.0f CPU-seconds: %s", HangCPUSeconds, l), Trace: []string{l}}}
					bz, _ := json.Marshal(rec)
					if guard.out != "" {
						os.WriteFile(guard.out+".hang", bz, 0o644)
					}
					fmt.Fprintf(os.Stderr, "WATCHDOG: non-terminating call: %s\n", l)
					os.Exit(3)
				}
			}
		}()
	})
}

func Enter(label string) { guard.label.Store(label); guard.tick.Add(1) }
func Leave()             { guard.tick.Add(1) }
